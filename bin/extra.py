"""Property specific extra engines behind bin/check: Valgrind Memcheck (C17), later ThreadSanitizer / libFuzzer.
run(...) -> {"violations": [(replay, signature, msg)], "known_lines": [], "coverage": {...}}"""
import os, subprocess, json, shutil, sys


def _worker_stats(procs):
    stats = []
    for p, statf, lf in procs:
        p.wait()
        lf.close()
        if os.path.exists(statf):
            try:
                stats.append(json.load(open(statf)))
            except Exception as e:   # noqa
                print("bad stats file", statf, e)
    return stats


def run_valgrind(pid, tier, seed, cfg, env_for, known, excludes, BUILD, REPO, rdir):
    """The same rapidcheck property in the uninstrumented `plain` flavour under Valgrind Memcheck: the property
    itself issues VALGRIND_CHECK_MEM_IS_DEFINED for every field of every getter result."""
    vc = cfg["valgrind"][tier]
    outdir = "%s/run/%s-vg" % (BUILD, pid)
    shutil.rmtree(outdir, ignore_errors=True)
    os.makedirs(outdir, exist_ok=True)
    procs = []
    env = env_for("plain")
    for w in range(vc["workers"]):
        wseed = (seed * 7919 + w * 104729 + 17) % (2**31 - 1) or 1
        statf = "%s/w%d.json" % (outdir, w)
        cmd = ["valgrind", "-q", "--error-exitcode=0", "--undef-value-errors=yes", "--leak-check=no", "--trace-children=no",
               "--suppressions=world/valgrind.supp",
               "%s/plain/vfprop" % BUILD, "run", pid, "--cases", str(vc["cases"]), "--size", str(vc.get("size", 60)), "--seed", str(wseed),
               "--out", statf, "--replays", rdir, "--max-shrinks", "25"]
        if excludes:
            cmd += ["--exclude", ",".join(excludes)]
        lf = open("%s/w%d.log" % (outdir, w), "w")
        procs.append((subprocess.Popen(cmd, stdout=lf, stderr=subprocess.STDOUT, env=env), statf, lf))
    stats = _worker_stats(procs)
    out = {"violations": [], "known_lines": [], "coverage": {}}
    ev = 0
    nt = set()
    for st in stats:
        ev += st["evaluations"]
        nt.update(st.get("nt_hashes", []))
        if st.get("failed"):
            f = st["failure"]
            out["violations"].append((f["replay"], "memcheck:" + f["signature"], f["msg"]))
    if len(stats) < vc["workers"]:
        print("INFRASTRUCTURE: a Valgrind worker produced no statistics (see %s)" % outdir)
        sys.exit(2)
    out["coverage"] = {"memcheck_cases": ev, "memcheck_distinct_nontrivial": len(nt), "evaluations": ev,
                       "rule_extra": " | Memcheck part: the same generator, every field of every result checked with VALGRIND_CHECK_MEM_IS_DEFINED"}
    return out


def run_tsan(pid, tier, seed, cfg, env_for, known, excludes, BUILD, REPO, rdir):
    """The same rapidcheck property in the free-running flavour (real parallel threads, ThreadSanitizer, generated
    delays at lock operations). The harness turns a ThreadSanitizer report with a libbidib frame into a failure."""
    tc = cfg["tsan"][tier]
    outdir = "%s/run/%s-tsan" % (BUILD, pid)
    shutil.rmtree(outdir, ignore_errors=True)
    os.makedirs(outdir, exist_ok=True)
    procs = []
    env = env_for("tsan")
    for w in range(tc["workers"]):
        wseed = (seed * 6151 + w * 15485863 + 29) % (2**31 - 1) or 1
        statf = "%s/w%d.json" % (outdir, w)
        cmd = ["%s/tsan/vfprop" % BUILD, "run", pid, "--cases", str(tc["cases"]), "--size", str(tc.get("size", 70)), "--seed", str(wseed),
               "--out", statf, "--replays", rdir, "--max-shrinks", "12"]       # free-running cases: shrinking is slow (real time) and not deterministic
        if excludes:
            cmd += ["--exclude", ",".join(excludes)]
        lf = open("%s/w%d.log" % (outdir, w), "w")
        procs.append((subprocess.Popen(cmd, stdout=lf, stderr=subprocess.STDOUT, env=env), statf, lf))
    stats = _worker_stats(procs)
    if len(stats) < tc["workers"]:
        print("INFRASTRUCTURE: a ThreadSanitizer worker produced no statistics (see %s)" % outdir)
        sys.exit(2)
    out = {"violations": [], "known_lines": [], "coverage": {}}
    ev, nt, threads, calls = 0, set(), 0, 0
    for st in stats:
        ev += st["evaluations"]
        nt.update(st.get("nt_hashes", []))
        threads += st["counters"].get("threads", 0)
        calls += st["counters"].get("api-calls", 0)
        if st.get("failed"):
            f = st["failure"]
            out["violations"].append((f["replay"], f["signature"], f["msg"]))
    out["coverage"] = {"tsan_cases": ev, "tsan_distinct_nontrivial": len(nt), "tsan_threads_run": threads, "tsan_api_calls": calls, "evaluations": ev,
                       "rule_extra": " | ThreadSanitizer part: the same generator with real parallel threads (up to 12) and generated delays at lock operations"}
    return out


def run_fuzz(pid, tier, seed, cfg, env_for, known, excludes, BUILD, REPO, rdir):
    """Coverage-guided fuzzing (libFuzzer) of the same property: the fuzz input is the case byte string, decoded by the
    same data provider; the property's oracle runs inside the target. Corpus seeded with cases exported by the
    rapidcheck generator. Bounded by -runs (never by time); only crash-* / leak-* artefacts are violations."""
    fc = cfg["fuzz"][tier]
    outdir = "%s/run/%s-fuzz" % (BUILD, pid)
    shutil.rmtree(outdir, ignore_errors=True)
    os.makedirs(outdir, exist_ok=True)
    r = subprocess.run("make -f build.mk -j16 FLAVOUR=fuzz REPO=%s BUILD=%s %s/fuzz/vffuzz" % (REPO, BUILD, BUILD), shell=True, stdout=subprocess.PIPE, stderr=subprocess.STDOUT, text=True)
    if r.returncode != 0:
        print(r.stdout[-4000:])
        print("BUILD-FAILED flavour=fuzz")
        sys.exit(2)
    env = env_for("asan")
    env["ASAN_OPTIONS"] = "detect_leaks=1:abort_on_error=0:allocator_may_return_null=1:detect_stack_use_after_return=0"
    seeds = "%s/seeds" % outdir
    cmd = ["%s/asan/vfprop" % BUILD, "run", pid, "--cases", "400", "--seed", str(seed + 4242), "--out", "%s/seedgen.json" % outdir, "--replays", rdir, "--corpus", seeds]
    if excludes:
        cmd += ["--exclude", ",".join(excludes)]
    subprocess.run(cmd, stdout=subprocess.DEVNULL, stderr=subprocess.DEVNULL, env=env)
    procs = []
    for w in range(fc["workers"]):
        cdir = "%s/corpus%d" % (outdir, w)
        os.makedirs(cdir, exist_ok=True)
        if w % 4 != 3 and os.path.isdir(seeds):          # every fourth worker starts from an empty corpus
            subprocess.run("cp %s/* %s/ 2>/dev/null" % (seeds, cdir), shell=True)
        e = dict(env, VF_FUZZ_PROP=pid, VF_FUZZ_STATS="%s/stats%d.json" % (outdir, w), VF_FUZZ_EXCLUDE=",".join(excludes))
        cmd = ["%s/fuzz/vffuzz" % BUILD, "-seed=%d" % ((seed * 31 + w * 977) % 2147483647 or 1), "-runs=%d" % fc["runs"], "-max_len=%d" % fc.get("max_len", 3000),
               "-timeout=120", "-rss_limit_mb=4096", "-print_final_stats=1", "-artifact_prefix=%s/%s-fuzz-w%d-" % (os.path.abspath(rdir), pid, w), cdir]
        lf = open("%s/w%d.log" % (outdir, w), "w")
        procs.append((subprocess.Popen(cmd, stdout=lf, stderr=subprocess.STDOUT, env=e), "%s/stats%d.json" % (outdir, w), lf, w))
    out = {"violations": [], "known_lines": [], "coverage": {}}
    execs = nt = dn = 0
    noise = 0
    for p, statf, lf, w in procs:
        p.wait()
        lf.close()
        if os.path.exists(statf):
            try:
                st = json.load(open(statf))
                execs += st["executions"]; nt += st["nontrivial"]; dn += st["distinct_nontrivial"]
            except Exception:
                pass
    import glob as _g
    for a in sorted(_g.glob("%s/%s-fuzz-w*-*" % (rdir, pid))):
        base = os.path.basename(a)
        kind = base.split("-")[3] if len(base.split("-")) > 3 else ""
        if kind in ("crash", "leak"):
            log = ""
            try:
                wk = base.split("-")[2][1:]
                log = open("%s/w%s.log" % (outdir, wk)).read()[-3000:]
            except Exception:
                pass
            import re as _re
            m = _re.search(r"VF-PROPERTY-FAILURE \S+: ([^\n]{0,300})", log) or _re.search(r"(ERROR: AddressSanitizer[^\n]{0,200}|runtime error:[^\n]{0,200})", log)
            out["violations"].append((a, "fuzz:" + kind, (m.group(1) if m else "libFuzzer artefact " + base)))
        else:
            noise += 1          # timeout- / oom- / slow-unit-: load noise, inconclusive
            os.remove(a)
    out["coverage"] = {"fuzz_executions": execs, "fuzz_nontrivial": nt, "fuzz_distinct_nontrivial_per_worker_sum": dn, "fuzz_inconclusive_artefacts": noise,
                       "evaluations": execs, "distinct_nontrivial": 0,
                       "rule_extra": " | libFuzzer part: coverage-guided mutation of the same case byte strings (-runs bounded, corpus seeded by the generator; every 4th worker from an empty corpus)"}
    return out


def run(pid, tier, seed, cfg, env_for, known, excludes, BUILD, REPO, rdir):
    kind = cfg["extra"]
    if kind == "fuzz":
        return run_fuzz(pid, tier, seed, cfg, env_for, known, excludes, BUILD, REPO, rdir)
    if kind == "tsan":
        return run_tsan(pid, tier, seed, cfg, env_for, known, excludes, BUILD, REPO, rdir)
    if kind == "valgrind":
        return run_valgrind(pid, tier, seed, cfg, env_for, known, excludes, BUILD, REPO, rdir)
    raise SystemExit("unknown extra engine " + kind)
