"""Property specific extra engines behind bin/check: Valgrind Memcheck (C17), later ThreadSanitizer / libFuzzer.
run(...) -> {"violations": [(replay, signature, msg)], "known_lines": [], "coverage": {...}}"""
import os, subprocess, json, shutil, sys


def _worker_stats(procs):
    stats = []
    for p, statf, lf in procs:
        p.wait()
        lf.close()
        if os.path.exists(statf):
            try:
                stats.append(json.load(open(statf)))
            except Exception as e:   # noqa
                print("bad stats file", statf, e)
    return stats


def run_valgrind(pid, tier, seed, cfg, env_for, known, excludes, BUILD, REPO, rdir):
    """The same rapidcheck property in the uninstrumented `plain` flavour under Valgrind Memcheck: the property
    itself issues VALGRIND_CHECK_MEM_IS_DEFINED for every field of every getter result."""
    vc = cfg["valgrind"][tier]
    outdir = "%s/run/%s-vg" % (BUILD, pid)
    shutil.rmtree(outdir, ignore_errors=True)
    os.makedirs(outdir, exist_ok=True)
    procs = []
    env = env_for("plain")
    for w in range(vc["workers"]):
        wseed = (seed * 7919 + w * 104729 + 17) % (2**31 - 1) or 1
        statf = "%s/w%d.json" % (outdir, w)
        cmd = ["valgrind", "-q", "--error-exitcode=0", "--undef-value-errors=yes", "--leak-check=no", "--trace-children=no",
               "--suppressions=world/valgrind.supp",
               "%s/plain/vfprop" % BUILD, "run", pid, "--cases", str(vc["cases"]), "--size", str(vc.get("size", 60)), "--seed", str(wseed),
               "--out", statf, "--replays", rdir, "--max-shrinks", "120"]
        if excludes:
            cmd += ["--exclude", ",".join(excludes)]
        lf = open("%s/w%d.log" % (outdir, w), "w")
        procs.append((subprocess.Popen(cmd, stdout=lf, stderr=subprocess.STDOUT, env=env), statf, lf))
    stats = _worker_stats(procs)
    out = {"violations": [], "known_lines": [], "coverage": {}}
    ev = 0
    nt = set()
    for st in stats:
        ev += st["evaluations"]
        nt.update(st.get("nt_hashes", []))
        if st.get("failed"):
            f = st["failure"]
            out["violations"].append((f["replay"], "memcheck:" + f["signature"], f["msg"]))
    if len(stats) < vc["workers"]:
        print("INFRASTRUCTURE: a Valgrind worker produced no statistics (see %s)" % outdir)
        sys.exit(2)
    out["coverage"] = {"memcheck_cases": ev, "memcheck_distinct_nontrivial": len(nt), "evaluations": ev,
                       "rule_extra": " | Memcheck part: the same generator, every field of every result checked with VALGRIND_CHECK_MEM_IS_DEFINED"}
    return out


def run_tsan(pid, tier, seed, cfg, env_for, known, excludes, BUILD, REPO, rdir):
    """The same rapidcheck property in the free-running flavour (real parallel threads, ThreadSanitizer, generated
    delays at lock operations). The harness turns a ThreadSanitizer report with a libbidib frame into a failure."""
    tc = cfg["tsan"][tier]
    outdir = "%s/run/%s-tsan" % (BUILD, pid)
    shutil.rmtree(outdir, ignore_errors=True)
    os.makedirs(outdir, exist_ok=True)
    procs = []
    env = env_for("tsan")
    for w in range(tc["workers"]):
        wseed = (seed * 6151 + w * 15485863 + 29) % (2**31 - 1) or 1
        statf = "%s/w%d.json" % (outdir, w)
        cmd = ["%s/tsan/vfprop" % BUILD, "run", pid, "--cases", str(tc["cases"]), "--size", str(tc.get("size", 70)), "--seed", str(wseed),
               "--out", statf, "--replays", rdir, "--max-shrinks", "60"]
        if excludes:
            cmd += ["--exclude", ",".join(excludes)]
        lf = open("%s/w%d.log" % (outdir, w), "w")
        procs.append((subprocess.Popen(cmd, stdout=lf, stderr=subprocess.STDOUT, env=env), statf, lf))
    stats = _worker_stats(procs)
    if len(stats) < tc["workers"]:
        print("INFRASTRUCTURE: a ThreadSanitizer worker produced no statistics (see %s)" % outdir)
        sys.exit(2)
    out = {"violations": [], "known_lines": [], "coverage": {}}
    ev, nt, threads, calls = 0, set(), 0, 0
    for st in stats:
        ev += st["evaluations"]
        nt.update(st.get("nt_hashes", []))
        threads += st["counters"].get("threads", 0)
        calls += st["counters"].get("api-calls", 0)
        if st.get("failed"):
            f = st["failure"]
            out["violations"].append((f["replay"], f["signature"], f["msg"]))
    out["coverage"] = {"tsan_cases": ev, "tsan_distinct_nontrivial": len(nt), "tsan_threads_run": threads, "tsan_api_calls": calls, "evaluations": ev,
                       "rule_extra": " | ThreadSanitizer part: the same generator with real parallel threads (up to 12) and generated delays at lock operations"}
    return out


def run(pid, tier, seed, cfg, env_for, known, excludes, BUILD, REPO, rdir):
    kind = cfg["extra"]
    if kind == "tsan":
        return run_tsan(pid, tier, seed, cfg, env_for, known, excludes, BUILD, REPO, rdir)
    if kind == "valgrind":
        return run_valgrind(pid, tier, seed, cfg, env_for, known, excludes, BUILD, REPO, rdir)
    raise SystemExit("unknown extra engine " + kind)
