TEXTS = {
 "C01": {
  "technique": "property-based testing (rapidcheck): generated multi-thread send/flush/capacity histories under a generated schedule, oracle = independent reference decoder + reference encoder (multiset, per-thread order, capacity)",
  "level": "exploration: thousands of generated send histories (all 72 low-level constructors, escape-heavy payloads, capacity announcements 0..255 - evaluated by the library in the normal-mode third of the cases, where the bound is the capacity in force while the packet was filled -, auto-flush timings, 1-4 threads with scheduler-owned preemptions) are decoded with an independent strict BiDiB decoder and compared with an independent encoder; failures shrink to a replay file",
  "note": "trusts the reference codec (ref/codec.hpp, bit-wise CRC) and the reference encoding table (harness/sends.cpp) written from the header documentation; interleavings only at lock/sleep granularity",
 },
 "C18": {
  "technique": "property-based testing (rapidcheck): generated calls of all 72 low-level constructors with boundary-weighted arguments and exact-size payload buffers, oracle = reference encoding table + documented ranges, ASan/UBSan",
  "level": "exploration: every public bidib_send_* constructor is called with generated node addresses (depth 0-3), scalars over 0..255 with documented range boundaries weighted up, and payloads of length 0/max/max+1 in exact-size heap buffers; the wire delta is decoded independently and must be nothing (argument out of range) or exactly one message with the reference encoding, type < 0x80, length byte <= 127",
  "note": "documented ranges and encodings are transcribed in harness/sends.cpp from include/lowlevel/*.h and the BiDiB message tables; where a header is silent the pinned behaviour (accept set) is the reference; bidib_send_sys_reset is a dialogue and is covered by C20",
 },
 "C02": {
  "technique": "property-based testing (rapidcheck) with fault injection: generated packet streams with constructed CRC-failing corruption (bit flips, dropped/inserted bytes, truncation, garbage, extra delimiters), generated read chunking, and sender->receiver round trips; oracle = reference encoder/decoder",
  "level": "fault_enumeration: streams of well-formed packets (all type codes, depth 0-3, escape-heavy payloads, arbitrary sequence numbers) interleaved with six classes of corruption and generated read-poll chunking; the messages surfacing through bidib_read_message must be exactly those of the intact packets, in order, byte for byte; second generator feeds the library's own sender output back",
  "note": "trusts ref/codec.hpp; corrupted fragments are constructed to fail the CRC (CRC-valid malformed input is C12); debug mode is used because there every message surfaces",
 },
 "C03": {
  "technique": "model-based property-based testing (rapidcheck): generated send/answer/loss/time histories against a two-sided reference flow-control model (permissive lower bound for safety, FIFO upper bound for liveness)",
  "level": "exploration: generated histories over 1-5 nodes with requests of every response size, matching / alternative / unrelated / duplicate answers and lost responses (virtual-time expiry); budget safety, FIFO exactly-once and never-stranded obligations are checked after every event and after a final drain",
  "note": "trusts the frozen response-size table ref/resp.hpp and the two-sided model in props/flow.cpp; obligations only at library activations; single sender thread (sender/receiver races are exercised by C05 and C10)",
 },
 "C04": {
  "technique": "model-based property-based testing (rapidcheck): generated stall/unstall notices (incl. the interface, nested, repeated) interleaved with sends and answers against the reference flow model",
  "level": "exploration: node trees of depth 0-3 with ancestor relations; no message may reach the wire while the node or an ancestor is stalled, held traffic must be released in submission order exactly once when the last blocking stall clears and the budget has room",
  "note": "as C03; the harness flushes before each stall notice",
 },
 "C05": {
  "technique": "property-based testing (rapidcheck) over thread schedules: 2-6 sender threads (messages with and without data bytes, i.e. both constructors) plus the receiver releasing deferred messages, scheduler-owned preemption lists / seeded random preemption; oracle = consecutive per-node sequence numbers in decoded wire order",
  "level": "exploration: generated thread plans (shared and private nodes, budget-deferred messages released by injected answers, 255->1 wrap prologue) under generated schedules with preemption at every lock operation; per destination node the decoded wire must carry 1,2,..,255,1,..",
  "note": "interleavings inside critical sections are not explored (lock-granularity scheduler); numbering after system reset is checked by the normal-mode properties",
 },
 "C13": {
  "technique": "property-based testing / structure-aware fuzzing (rapidcheck): valid generated configurations printed to YAML and hit by 1-3 text-structure mutations, missing/empty files and byte noise; oracle = return value in {0,1}, virtual-time termination, lock/thread ledger, LeakSanitizer, restart with a valid configuration",
  "level": "fault_enumeration: every case runs bidib_start_pointer on a mutated file triple inside a forked child under ASan/UBSan with G_SLICE=always-malloc; a rejected start must leave no lock held, no unjoined thread and no leaked memory, and a follow-up start with a known-valid configuration must succeed and report only its own boards",
  "note": "hang = wait-for cycle or virtual-time budget (deterministic), interface fully answering or fully silent; yaml parsing itself (libyaml) is trusted",
 },
 "C14": {
  "technique": "property-based testing (rapidcheck): generated valid configurations (reference printer) and single-fault mutants of the 26 rejection classes; oracle = reference configuration semantics vs return value and all enumeration getters",
  "level": "exploration: valid configurations over the documented layout must be accepted and every enumeration getter (boards, accessories with aspects, peripherals, segments, reversers, boosters, track outputs, trains, functions, features, unique ids, initial snapshot) must equal the reference; each single fault of the statement's list must make start return 1 and stop cleanly",
  "note": "reference semantics in harness/config.cpp written from the example configurations and the statement; getter results compared as multisets (order not asserted)",
 },
 "C09": {
  "technique": "model-based property-based testing (rapidcheck): generated configurations, trees and high-level call sequences (valid / unknown / disconnected / NULL / out-of-range) against a reference encoder for the high-level layer and a snapshot-diff oracle",
  "level": "exploration: every kind of high-level command over generated configurations and connected subsets; valid calls must return 0, put exactly the prescribed message(s) on the wire to the owning board's current address (masked comparison for inactive drive groups) and change only the commanded entity; invalid calls must return 1, send nothing and leave the snapshot unchanged; a function-state model covers history-dependent function groups",
  "note": "reference encodings in props/c09.cpp written from include/highlevel/*.h and the BiDiB drive/accessory message layout; bus simulator answers every request",
 },
 "C15": {
  "technique": "model-based property-based testing (rapidcheck): generated node trees (3 levels, nested and unknown interfaces), enumeration with table-change interruptions in the root or a nested interface (optionally with a node leaving), generated node-lost/node-new histories and commands against a reference node-table model",
  "level": "exploration: connectivity and addresses reported by the getters must equal the tree model after startup and after every notice; every notice must be acknowledged exactly once to its sender with the announced version without a flush; commands go to the current address of connected boards only",
  "note": "tree model in props/c15.cpp; bus simulator in harness/bus.cpp written from the BiDiB node-table description",
 },
 "C20": {
  "technique": "property-based testing (rapidcheck) with a transcript oracle: generated configurations x connected subsets x bus behaviours (feature mismatch, table change, capacity); required/forbidden/order constraints over the complete decoded startup and reset transcript",
  "level": "exploration: for every start and every additional system reset the decoded downlink transcript must contain exactly the configured feature settings of connected boards (before SYS_ENABLE), one GO per connected track output (after it), exactly the configured initial values with the C09 encoding (after GO), nothing for nodes that are not connected configured boards, and consecutive sequence numbers restarting after the reset",
  "note": "multiset comparison with masked drive groups; tolerated traffic listed in the assumptions",
 },
 "C19": {
  "technique": "model-based property-based testing (rapidcheck): generated configurations (feature 0x03 absent / 0 / >0 per board), node trees and histories of occupancy reports (OCC/FREE/MULTIPLE/POSITION), own requests, answers, stall notices and time; oracle = per-node submission list (own requests + expected mirrors) vs decoded wire, with the two-sided flow model for the 'must be on the wire without a flush' obligation",
  "level": "exploration: every report of a SecAck board must produce exactly one mirror with the same detector number and payload, in submission order, on the wire without any harness flush as soon as the node is not stalled and its budget has room (immediately when nothing blocks); boards without the feature and unknown nodes never receive a mirror type; at the end every mirror is out exactly once",
  "note": "the simulated bus stops answering after startup so budgets fill up; only report layouts defined by the BiDiB specification are generated (bitmap base and size multiples of 8, 5-byte position reports); the harness flushes only directly after its own low-level sends",
 },
 "C12": {
  "technique": "grammar-based fuzzing with rapidcheck (shrinking across crashes, fork per case, ASan+UBSan): generated uplink streams of valid traffic, CRC-valid packets with adversarial length / address / type / field / inner-length values, raw noise and oversized packets, in debug and normal mode; oracle = sanitizer silence + liveness probe (well-formed packets after the stream must still be delivered / tracked) + clean stop",
  "level": "fault_enumeration: six malformation classes (short, lenlie, addr, field, inner, blob) over all uplink type codes plus noise and oversized packets, against configurations in which the addressed equipment exists and does not exist; after every stream two fresh SYS_PONG packets must surface through bidib_read_message, an occupancy report must reach bidib_get_segment_state (normal mode) and bidib_stop must leave no lock held and no thread unjoined",
  "note": "memory errors are visible only where ASan/UBSan can see them (heap, stack, globals; not reads of uninitialised memory); the probe is sent twice because a packet directly behind line noise may legitimately be merged into the corrupted fragment",
 },
 "C06": {
  "technique": "model-based property-based testing (rapidcheck): generated uplink histories over all 256 type codes with well-formed payloads and both variants of the content-dependent types, bursts across the 128 bound, reads at generated points and reader threads racing the receiver under scheduler-owned interleavings; oracle = reference dispatch model whose two user-queue lists are parsed from /repo/README.md, bounded FIFO model, ASan/LSan for buffer ownership",
  "level": "exploration: in normal mode every tabulated type must surface in exactly its queue, error variants in the error queue and their non-error variants nowhere, state-consumed and startup types in neither user queue, untabulated types in exactly one user queue and always the same; in debug mode everything except STALL in the message queue; each queue FIFO, <= 128 retained, oldest dropped, buffers byte-identical and freed by the caller exactly once; with concurrent readers every message is delivered to exactly one reader in arrival order",
  "note": "the contract table is read from the README of the tree under test; the set of state-consumed types is transcribed from the statements of C07/C15/C01/C04; BOOST_STAT codes whose error/non-error classification is not documented (NOPOWER, NO_DCC, ON_LIMIT, ON_HOT, ON_STOP_REQ) and CS_DRIVE_EVENT reports whose address byte and event code disagree are not generated",
 },
 "C07": {
  "technique": "model-based property-based testing (rapidcheck): generated configurations, trees and histories of state-bearing uplink messages (full field ranges, known and unknown references) interleaved with the user's drive / DCC-accessory commands; oracle = executable reference model of the tracked state (props/state_model.hpp) folded over the history and compared with bidib_get_state field by field after every step",
  "level": "exploration: 13 kinds of feedback (occupancy, address lists incl. free form / accessory entries / both orientations, confidence, segment and booster current over all 256 codes, voltage, temperature, measured speed, decoder dynamics, booster and command-station state, accessory / peripheral / reverser state, drive and accessory acknowledgements, manual drive / accessory operation) and 4 kinds of user command; a message with an unknown node, number, port or address must leave the whole snapshot unchanged",
  "note": "the initial value of the fold is read from the library after startup (initial values are C14/C20); BOOST_STAT codes without documented classification, detector number 255 inside bitmaps and reserved drive function bits are not generated; one orientation code per decoder address per case (C08 varies it)",
 },
 "C08": {
  "technique": "property-based testing (rapidcheck) with an invariant oracle over the getters: generated occupancy histories (OCC / FREE / MULTIPLE / ADDRESS, trains spanning segments, several trains per segment, unknown addresses, both orientations) with 0-2 concurrent getter threads under scheduler-owned interleavings; concurrent results are checked linearizability-style against the values at the message boundaries inside the call window",
  "level": "exploration: after every message on_track == (some segment lists the address), position == exactly those segments, orientation is one reported with the address, bidib_get_trains_on_track and bidib_get_state agree, a segment just reported free lists nothing; every concurrent bidib_get_train_position / _on_track / bidib_get_segment_state result equals the boundary value of some message boundary inside the window of the call",
  "note": "no reference model: the invariant couples the getters with each other; one decoder is listed at most once per address list (a detector never reports it twice); interleavings at lock / sleep granularity",
 },
 "C17": {
  "technique": "property-based testing (rapidcheck) with sanitizer oracles: generated configurations, state histories and getter call lists over all 47 public getters x {known, foreign, unknown, NULL} ids; every result is rendered field by field, kept alive across further state changes and bidib_stop, re-rendered and freed once under AddressSanitizer; the same generator runs in an uninstrumented build under Valgrind Memcheck with a definedness client request on every field; snapshot-vs-single-getter equality over all entities",
  "level": "exploration: (a) ASan/LSan: no use-after-free, double free or invalid free, results unchanged after later messages and after stop; (b) Memcheck: no uninitialised field in any result incl. everything it points to, for known and unknown ids; (c) bidib_get_state equals the single-entity getter for every point, signal, peripheral, segment, reverser, train, booster and track output",
  "note": "definedness is decided by Valgrind's bit-precise tracking, 30x slower than the ASan part and therefore run with fewer cases; fields are visited one by one, padding is never inspected",
  "engine": "vfprop",
 },
 "C16": {
  "technique": "stateful property-based testing (rapidcheck): generated lists of 1-5 library sessions in one process (normal / silent interface / faulty configuration / debug mode x auto-flush off, 5 ms, 50 ms) with generated activity, stop-while-stopped and start-while-running calls (also in mid-session with other callbacks and pending work) and repeated recipes; oracles = decoded shutdown transcript (order and exactly-once constraints), thread ledger and lock table of the interposed pthread layer, LeakSanitizer, metamorphic session-equivalence (a repeated recipe yields the same startup transcript, probe transcript and snapshot)",
  "level": "exploration: every successfully started normal session must end with exactly one soft-stop per connected track output, then a zero-speed/functions-off drive message per (train, output), then exactly one track-off per output, all on the wire before bidib_stop returns; every thread created is joined exactly once and none of an earlier session again; no lock held, no leak; no-op calls produce no byte and no thread; session k behaves like session 1 (capacity 64, numbering from 1, same startup dialogue)",
  "note": "known finding listed in KNOWN_FINDINGS.txt: shutdown commands deferred behind unanswered requests of a track output are discarded (excluded by construction while listed: requests to track outputs are answered); leak detection relies on LeakSanitizer's recoverable check at the end of the case",
 },
 "C11": {
  "technique": "property-based testing (rapidcheck) with an interposed lock layer as oracle: per case the complete product of all public calls x argument classes, all uplink type codes on the receiver thread, rejected starts, or 2-4 threads of generated calls under a generated schedule; the objcopy-redirected pthread layer checks held-sets at every return and quiescent point, unlock discipline, wait-for cycles, virtual-time budget; the lock-order graph is checked for cycles per case and over the union of all cases of the run",
  "level": "exploration: 47 getters x 4 argument classes, 15 high-level setter/admin calls x 4 classes, 72 low-level senders in/out of range, flush and the queue readers are executed completely in every enumeration case; 26 rejection classes for start+stop; concurrent schedules with preemption at every lock operation; evidence lists every lock-order edge observed",
  "note": "the order graph treats an rwlock as one node regardless of mode; recursive read acquisition by one thread is reported as information (legal with glibc's reader-preferring default, which the lock model mirrors); absence of a cycle in the observed graph is not a proof for paths never executed",
 },
 "C10": {
  "technique": "property-based testing (rapidcheck) over thread plans and schedules in two flavours of one harness: (1) deterministic scheduler with generated preemptions at every lock operation, ASan, library built with -finstrument-functions for a lock-contract monitor generated from the tree's 'Shall only be called with X acquired' comments, linearizability-style oracle for entity getters against the reference state model, with prober threads that the scheduler runs at every release of a track-state mutex, and lost-update oracles for commands of several threads on one train; (2) free-running real threads under ThreadSanitizer with generated delays at lock operations",
  "level": "exploration: 2-4 (scheduled) / 2-12 (ThreadSanitizer) application threads mixing every getter, high-level setter, admin call, low-level sender, flush and queue reader with continuous uplink traffic and auto-flush; no sanitizer report with a library frame, every reached internal accessor holds the locks its contract names, every concurrently returned entity state existed at a message boundary inside the call window, no lock held at return or after stop",
  "note": "absence of a ThreadSanitizer report is evidence for the interleavings and memory the instrumentation saw (glib internals are uninstrumented); reports inside bidib_start_*, bidib_stop, bidib_send_sys_reset, bidib_communication_works are outside the documented contract and ignored; once-only queue delivery under concurrent readers is checked by C06",
 },
}
NOT_YET = {}
