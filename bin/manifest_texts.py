TEXTS = {
 "C01": {
  "technique": "property-based testing (rapidcheck): generated multi-thread send/flush/capacity histories under a generated schedule, oracle = independent reference decoder + reference encoder (multiset, per-thread order, capacity)",
  "level": "exploration: thousands of generated send histories (all 72 low-level constructors, escape-heavy payloads, capacities 0..255, auto-flush timings, 1-4 threads with scheduler-owned preemptions) are decoded with an independent strict BiDiB decoder and compared with an independent encoder; failures shrink to a replay file",
  "note": "trusts the reference codec (ref/codec.hpp, bit-wise CRC) and the reference encoding table (harness/sends.cpp) written from the header documentation; interleavings only at lock/sleep granularity",
 },
 "C18": {
  "technique": "property-based testing (rapidcheck): generated calls of all 72 low-level constructors with boundary-weighted arguments and exact-size payload buffers, oracle = reference encoding table + documented ranges, ASan/UBSan",
  "level": "exploration: every public bidib_send_* constructor is called with generated node addresses (depth 0-3), scalars over 0..255 with documented range boundaries weighted up, and payloads of length 0/max/max+1 in exact-size heap buffers; the wire delta is decoded independently and must be nothing (argument out of range) or exactly one message with the reference encoding, type < 0x80, length byte <= 127",
  "note": "documented ranges and encodings are transcribed in harness/sends.cpp from include/lowlevel/*.h and the BiDiB message tables; where a header is silent the pinned behaviour (accept set) is the reference; bidib_send_sys_reset is a dialogue and is covered by C20",
 },
}
NOT_YET = {}
