TEXTS = {
 "C01": {
  "technique": "property-based testing (rapidcheck): generated multi-thread send/flush/capacity histories under a generated schedule, oracle = independent reference decoder + reference encoder (multiset, per-thread order, capacity)",
  "level": "exploration: thousands of generated send histories (all 72 low-level constructors, escape-heavy payloads, capacities 0..255, auto-flush timings, 1-4 threads with scheduler-owned preemptions) are decoded with an independent strict BiDiB decoder and compared with an independent encoder; failures shrink to a replay file",
  "note": "trusts the reference codec (ref/codec.hpp, bit-wise CRC) and the reference encoding table (harness/sends.cpp) written from the header documentation; interleavings only at lock/sleep granularity",
 },
}
NOT_YET = {}
