#!/usr/bin/env python3
"""Rewrites the block between <!-- SENSITIVITY:BEGIN --> and <!-- SENSITIVITY:END --> of DESIGN.md from
mutants/table.json, seeded/*/meta.json and mutants/last_run.json (written by mutants/run.py)."""
import json, os, glob, re
ROOT = os.path.dirname(os.path.dirname(os.path.abspath(__file__)))
os.chdir(ROOT)
table = json.load(open("mutants/table.json"))
last = json.load(open("mutants/last_run.json")) if os.path.exists("mutants/last_run.json") else {}


def verdicts(path, props):
    r = last.get(path, {})
    out = []
    for p in props:
        v = r.get(p, {}).get("verdict", "not run")
        out.append("%s: %s" % (p, "caught" if v.startswith("CAUGHT") else ("MISSED" if v.startswith("MISSED") else v)))
    return ", ".join(out)


lines = []
lines.append("### 6.1 Changes written by independent sub-agents (`seeded/<name>/`)\n")
lines.append("Each was written by a fresh sub-agent that saw only the property text and a scratch worktree, and was confirmed by")
lines.append("`seeded/confirm.sh` (clean tree: demo passes; patched tree: builds, the 49 tests pass, demo fails) before it was kept.\n")
lines.append("| change | property | needs to manifest | quick-tier result |")
lines.append("|---|---|---|---|")
for d in sorted(glob.glob("seeded/*/meta.json")):
    m = json.load(open(d))
    name = os.path.basename(os.path.dirname(d))
    cur = os.path.join(os.path.dirname(d), "patch.current.diff")
    path = cur if os.path.exists(cur) else os.path.join(os.path.dirname(d), "patch.diff")
    lines.append("| `%s` | %s | %s | %s |" % (name, m["property"], m["needs_to_manifest"].replace("|", "/"), verdicts(path, m.get("checks", [m["property"]]))))
lines.append("")
lines.append("### 6.2 Own mutants (`mutants/*.diff`)\n")
lines.append("`revert-*` are the reverse patches of the `fix:` commits (the defect the check found comes back); the others are hand-written regressions.\n")
lines.append("| patch | checks | quick-tier result |")
lines.append("|---|---|---|")
for name, props in sorted(table.items()):
    lines.append("| `%s` | %s | %s |" % (name, " ".join(props), verdicts(os.path.join("mutants", name), props)))
lines.append("")
listed = set()
for d in glob.glob("seeded/*/meta.json"):
    m = json.load(open(d))
    cur = os.path.join(os.path.dirname(d), "patch.current.diff")
    path = cur if os.path.exists(cur) else os.path.join(os.path.dirname(d), "patch.diff")
    for c in m.get("checks", [m["property"]]): listed.add((path, c))
for name, props in table.items():
    for c in props: listed.add((os.path.join("mutants", name), c))
nc = sum(1 for (p, c) in listed if last.get(p, {}).get(c, {}).get("verdict", "").startswith("CAUGHT"))
nm = sum(1 for (p, c) in listed if last.get(p, {}).get(c, {}).get("verdict", "").startswith("MISSED"))
extra = sorted((p, c) for p, r in last.items() for c, v in r.items() if (p, c) not in listed and v["verdict"].startswith("MISSED(rc=0)") and os.path.exists(p))
lines.append("Last recorded runs: %d listed (patch, check) pairs caught, %d missed (`mutants/last_run.json`; `mutants/run.py --scratch -j 3` re-runs them on scratch worktrees)." % (nc, nm))
if extra:
    lines.append("")
    lines.append("Pairs that were also tried because the change touches a neighbouring property, missed, and are therefore not listed as deciding checks: " +
                 ", ".join("`%s` by %s" % (os.path.basename(os.path.dirname(p)) if p.startswith("seeded/") else os.path.basename(p), c) for p, c in extra) + ".")
block = "\n".join(lines)
s = open("DESIGN.md").read()
s2 = re.sub(r"<!-- SENSITIVITY:BEGIN -->.*?<!-- SENSITIVITY:END -->", "<!-- SENSITIVITY:BEGIN -->\n" + block + "\n<!-- SENSITIVITY:END -->", s, flags=re.S)
open("DESIGN.md", "w").write(s2)
print("pairs caught", nc, "missed", nm)
