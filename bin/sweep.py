#!/usr/bin/env python3
"""Stability sweep: runs the quick (or thorough) tier of every registered check with several VERIF_SEED values on the
unchanged tree and reports anything that is not a clean pass. Evidence files are restored afterwards (they belong to the
default seed).   bin/sweep.py [--tier quick|thorough] [--seeds 2,3,4] [ids...]"""
import sys, os, subprocess, json, time, shutil
ROOT = os.path.dirname(os.path.dirname(os.path.abspath(__file__)))
os.chdir(ROOT)
sys.path.insert(0, "bin")
from tiers import TIERS
tier, seeds, ids = "quick", [2, 3, 4], []
a = sys.argv[1:]
i = 0
while i < len(a):
    if a[i] == "--tier": tier = a[i + 1]; i += 2
    elif a[i] == "--seeds": seeds = [int(x) for x in a[i + 1].split(",")]; i += 2
    else: ids.append(a[i]); i += 1
ids = ids or sorted(TIERS)
shutil.copytree("evidence", "build/evidence.keep", dirs_exist_ok=True)
bad = 0
for s in seeds:
    for pid in ids:
        t0 = time.time()
        r = subprocess.run(["bin/check", pid, "--tier", tier, "--seed", str(s)], capture_output=True, text=True)
        ok = r.returncode == 0 and "VIOLATION" not in r.stdout
        inc = ""
        try:
            inc = " inconclusive=%d" % json.load(open("evidence/%s.json" % pid))["coverage"].get("inconclusive_wallclock", 0)
        except Exception:
            pass
        print("seed %d %s %s %.0fs%s %s" % (s, pid, "ok" if ok else "NOT-OK rc=%d" % r.returncode, time.time() - t0, inc, "" if ok else r.stdout[-600:]), flush=True)
        bad += 0 if ok else 1
shutil.copytree("build/evidence.keep", "evidence", dirs_exist_ok=True)
print("sweep done, not ok:", bad)
sys.exit(1 if bad else 0)
