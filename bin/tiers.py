"""Per-property budgets (bounded by case count and generated size, never by time)."""
NP = 16

def T(qc, tc, size=100, qw=8, tw=NP, **kw):
    d = {"quick": {"cases": qc, "workers": qw, "size": size},
         "thorough": {"cases": tc, "workers": tw, "size": size}}
    d.update(kw)
    return d

TIERS = {
    "C01": T(2500, 30000),
    "C02": T(2500, 40000),
    "C03": T(2500, 30000),
    "C04": T(2000, 30000),
    "C05": T(1500, 15000),
    "C06": T(1500, 20000),
    "C07": T(1200, 15000),
    "C08": T(1200, 15000),
    "C09": T(1800, 20000),
    "C10": T(500, 6000, flavour="asanfn", flavours=["tsan"], extra="tsan",
             tsan={"quick": {"cases": 90, "workers": 8, "size": 70}, "thorough": {"cases": 500, "workers": 16, "size": 100}}),
    "C11": T(1500, 12000, global_lock_order=True),
    "C12": T(2500, 40000, extra="fuzz", fuzz={"quick": {"workers": 8, "runs": 5000}, "thorough": {"workers": 16, "runs": 400000}}),
    "C13": T(1200, 12000, extra="fuzz", fuzz={"quick": {"workers": 8, "runs": 3000}, "thorough": {"workers": 16, "runs": 200000}}),
    "C14": T(2500, 20000),
    "C15": T(2000, 25000),
    "C16": T(800, 10000),
    "C17": T(1200, 15000, flavours=["plain"], extra="valgrind",
             valgrind={"quick": {"cases": 40, "workers": 8, "size": 60}, "thorough": {"cases": 600, "workers": 16, "size": 80}}),
    "C18": T(4000, 50000),
    "C19": T(2000, 20000),
    "C20": T(2000, 20000),
}

LEVEL = {
    "C02": "fault_enumeration", "C12": "fault_enumeration", "C13": "fault_enumeration",
}

ASSUMPTIONS = {
    "*": [
        "library objects are built from /repo's current working tree, unmodified; only their imports of "
        "usleep/time/clock_gettime/syslog/pthread_*/fopen are renamed (objcopy) to the harness world",
        "threads are scheduled by a deterministic cooperative scheduler that switches at lock operations, sleeps, "
        "thread create/join/exit; interleavings inside critical sections are not explored",
        "held on everything explored; never a proof of absence",
    ],
    "C02": ["fault fragments are constructed to fail the CRC check (a corrupted fragment whose CRC happens to be valid is "
            "re-perturbed): CRC-valid malformed packets are C12's domain",
            "fragments never exceed 250 unescaped bytes (longer ones are C12's domain)"],
    "C03": ["liveness is evaluated at library activations (send returned / uplink message of the node processed), not at "
            "arbitrary instants: the library has no timer", "expiry compared at the 1 s resolution of time()",
            "an uplink message is only injected after buffered downlink bytes were flushed (an answer cannot precede its request)"],
    "C04": ["the harness flushes before injecting a stall notice: the property is about admission, bytes already buffered cannot be recalled",
            "budget-related obligations use the C03 model"],
    "C05": ["preemption only at lock operations / sleeps / thread create-join (scheduler-owned), with an explicit preemption list or a seeded random policy"],
    "C06": ["the message / error queue lists are parsed from /repo/README.md (section 'Message handling'); 'only in case of an error' = error variant",
            "error variants generated: ACCESSORY_STATE/NOTIFY with execution state 0x80, BOOST_STAT short circuit / overheated, CS_DRIVE_EVENT event 1; "
            "BOOST_STAT codes without a documented classification and CS_DRIVE_EVENT reports whose address low byte and event code disagree are not generated",
            "MSG_VENDOR: consumed when its key is the CV of a configured reverser of the sending board, otherwise a message-queue message",
            "payloads are well-formed (harness/traffic.hpp); malformed messages are C12's domain",
            "the concurrent-reader phase stays below the 128 bound (an overflow racing a pop has no single expected result)"],
    "C07": ["the fold starts from the snapshot the library reports after startup; from then on the reference is folded independently",
            "state is compared at quiescent moments (receiver drained, twice polled empty)",
            "an unmapped aspect is rendered as 'unknown' by all getters; that string is part of the reference",
            "not generated (counted): BOOST_STAT codes other than 0x00/0x01/0x02/0x04/0x05/0x80/0x84, bitmaps reaching detector 255, drive function1 values > 31 (reserved bits)",
            "the simulated bus is silent after startup, so optimistic values of user commands are not overwritten by acknowledgements unless generated"],
    "C08": ["one message per packet: an 'instant' is a message boundary",
            "a concurrent getter result must match some boundary whose interval [message injected, next message settled] overlaps the call window",
            "the same decoder address is listed at most once per MSG_BM_ADDRESS (counted exclusion)"],
    "C16": ["all sessions of a case run in one forked process and one virtual world; the bus simulator is re-created from the same template for every session",
            "shutdown transcript = downlink bytes between the call and the return of bidib_stop, after the harness flushed and waited for quiescence",
            "the drive messages of the shutdown are recognised by speed 0 (direction bit ignored) and all four function bytes 0; the 'active' byte is not asserted",
            "session equivalence compares decoded startup transcripts, raw probe bytes (9 x 23-byte messages to node 0x55) and the rendered snapshot"],
    "C17": ["every result is read completely (all fields, all strings and arrays) after the later state changes and - in half of the cases - after bidib_stop, then freed exactly once",
            "Memcheck part: uninstrumented -O0 build (flavour plain) of the same property under valgrind; VALGRIND_CHECK_MEM_IS_DEFINED per field, never on padding",
            "snapshot and single getters are compared at a quiescent moment (receiver drained)"],
    "C10": ["scheduled flavour: interleavings at lock / sleep / thread-create-join granularity only; free-running flavour: whatever 16 cores and generated delays produce",
            "the lock-contract table is generated from src/state/*_intern.h and src/highlevel/bidib_highlevel_intern.h of the tree under test; it is enforced while application threads run (between start and stop)",
            "watch cases: tracked state changes only through the main thread's uplink messages, so that message boundaries are the only instants at which an entity may change",
            "ThreadSanitizer reports without a libbidib frame (harness, rapidcheck, glib) are ignored"],
    "C11": ["library lock operations are observed through the objcopy-redirected pthread_mutex_* / pthread_rwlock_* imports; file-static mutexes without symbol appear as unnamed_static_lock_<n>",
            "a 'public call returned' check runs on the calling thread directly after the call; receiver / auto-flush / heartbeat threads are checked at quiescent points and after stop",
            "blocking forever = wait-for cycle among the modelled locks, or a call exceeding the virtual-time budget (900 virtual seconds)",
            "node-table notices are not part of the all-types sweep (their paths are exercised by C15 and by the thread cases)"],
    "C12": ["the stream is delivered through the read callback with generated poll gaps; only streams up to ~40 items / 700-byte oversized packets",
            "liveness = at least one of two well-formed probe packets sent after the stream is delivered (a packet directly behind line noise may be merged into the corrupted fragment)",
            "sanitizer-visible memory errors only (ASan + UBSan, G_SLICE=always-malloc)"],
    "C13": ["files are passed through the library's own fopen of <config_dir>/bidib_*_config.yml, redirected to in-memory "
            "streams; NUL bytes inside a file are not generated",
            "termination is judged by the virtual-time budget and wait-for-cycle detection, never by wall-clock time",
            "the simulated interface either answers every request or stays completely silent"],
    "C14": ["acceptance is only asserted for layouts present in the documented example configurations; rejection only for "
            "the fault classes listed in the statement (e.g. a point and a signal sharing an accessory number is not asserted either way)"],
    "C09": ["optimistic state is read immediately after the call, before the simulated bus' answers are processed",
            "function bytes are compared only inside the active function group (bytes of inactive groups are don't-care in MSG_CS_DRIVE)",
            "reserved function bits 5..7 and states other than 0/1 are expected to be rejected"],
    "C19": ["auto-flush is off and the harness never calls bidib_flush except directly after its own low-level sends",
            "only report layouts the BiDiB specification defines are generated (MULTIPLE: base and size multiples of 8, size 8..128; POSITION: 5 bytes; OCC/FREE optionally with a timestamp, which the mirror does not carry)",
            "'must be on the wire' is evaluated at library activations with the FIFO (upper-bound) budget model, 'must not' with the permissive one, as in C03/C04"],
    "C15": ["the simulated bus answers every request; node-new / node-lost notices are injected as uplink messages of the reporting interface",
            "children exist only below nodes whose class has the interface bit"],
    "C20": ["the transcript is judged after all messages deferred by the response budget have left (answers processed)",
            "enumeration, capacity query, occupancy queries and speed-0 / all-off drive messages are tolerated, but must target nodes of the tree"],
    "C01": ["every generated message is accepted for immediate transmission by construction (cumulative worst-case "
            "response budget per node <= 48 bytes); deferred messages are C03/C04",
            "the sequence byte is not compared here (C05)"],
}
