"""Per-property budgets (bounded by case count and generated size, never by time)."""
NP = 16

def T(qc, tc, size=100, qw=8, tw=NP, **kw):
    d = {"quick": {"cases": qc, "workers": qw, "size": size},
         "thorough": {"cases": tc, "workers": tw, "size": size}}
    d.update(kw)
    return d

TIERS = {
    "C01": T(1500, 20000),
    "C18": T(2500, 40000),
}

LEVEL = {
    "C02": "fault_enumeration", "C12": "fault_enumeration", "C13": "fault_enumeration",
}

ASSUMPTIONS = {
    "*": [
        "library objects are built from /repo's current working tree, unmodified; only their imports of "
        "usleep/time/clock_gettime/syslog/pthread_*/fopen are renamed (objcopy) to the harness world",
        "threads are scheduled by a deterministic cooperative scheduler that switches at lock operations, sleeps, "
        "thread create/join/exit; interleavings inside critical sections are not explored",
        "held on everything explored; never a proof of absence",
    ],
    "C01": ["every generated message is accepted for immediate transmission by construction (cumulative worst-case "
            "response budget per node <= 48 bytes); deferred messages are C03/C04",
            "the sequence byte is not compared here (C05)"],
}
