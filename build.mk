# Rebuilds the library objects from /repo's CURRENT working tree (unmodified sources,
# imports redirected by objcopy) plus the harness, one directory per flavour.
#   make -f build.mk FLAVOUR=asan|fuzz|tsan|plain
REPO    ?= /repo
FLAVOUR ?= asan
BUILD   ?= build
B       := $(BUILD)/$(FLAVOUR)
CC      := clang
CXX     := clang++
GLIB_CF := $(shell pkg-config --cflags glib-2.0)
LIBS    := -lglib-2.0 -lyaml -lpthread

COMMON  := -g -fno-omit-frame-pointer
ifeq ($(FLAVOUR),asan)
SAN     := -O1 -fsanitize=address,undefined -fno-sanitize-recover=undefined
WORLD   := world
endif
ifeq ($(FLAVOUR),fuzz)
SAN     := -O1 -fsanitize=address,undefined -fno-sanitize-recover=undefined -fsanitize=fuzzer-no-link
WORLD   := world
endif
ifeq ($(FLAVOUR),tsan)
# real parallel threads under ThreadSanitizer; library instrumented for the lock-contract monitor too
SAN     := -O1 -fsanitize=thread
WORLD   := world_free
LIBEXTRA := -finstrument-functions
HEXTRA  := -DVF_FNHOOK -DVF_CONTRACTS_INC='"$(B)/contracts.inc"'
LDEXTRA := -rdynamic -ldl
endif
ifeq ($(FLAVOUR),plain)
# uninstrumented, for Valgrind Memcheck (valgrind 3.19 cannot read clang's DWARF 5)
SAN     := -O0 -gdwarf-4
WORLD   := world
endif
ifeq ($(FLAVOUR),asanfn)
# as asan, library additionally compiled with -finstrument-functions (lock contracts)
SAN     := -O1 -fsanitize=address,undefined -fno-sanitize-recover=undefined
LIBEXTRA := -finstrument-functions
WORLD   := world
HEXTRA  := -DVF_FNHOOK -DVF_CONTRACTS_INC='"$(B)/contracts.inc"'
LDEXTRA := -rdynamic -ldl
endif

LIBSRC  := $(wildcard $(REPO)/src/*/*.c)
LIBHDR  := $(wildcard $(REPO)/src/*/*.h $(REPO)/include/*.h $(REPO)/include/*/*.h)
LIBOBJ  := $(addprefix $(B)/lib/,$(notdir $(LIBSRC:.c=.o)))
VPATH   := $(sort $(dir $(LIBSRC)))

HSRC    := $(wildcard harness/*.cpp props/*.cpp)
HOBJ    := $(addprefix $(B)/h/,$(notdir $(HSRC:.cpp=.o)))
HHDR    := $(wildcard harness/*.hpp harness/*.h world/*.h ref/*.hpp props/*.hpp)

CXXFLAGS := -std=gnu++17 $(COMMON) $(SAN) $(GLIB_CF) -I. -I$(REPO)/include -I$(REPO)/src $(HEXTRA) -Wall -Wno-unused-function

all: $(B)/vfprop

$(B)/lib $(B)/h:
	@mkdir -p $@

# library: unmodified sources; imports renamed afterwards
$(B)/lib/%.o: %.c $(LIBHDR) world/redirect.map | $(B)/lib
	$(CC) -std=gnu11 $(COMMON) $(SAN) $(LIBEXTRA) $(GLIB_CF) -w -c $< -o $@.tmp.o
	objcopy --redefine-syms=world/redirect.map $@.tmp.o $@
	@rm -f $@.tmp.o

$(B)/h/world.o: world/$(WORLD).c world/world.h | $(B)/h
	$(CC) -std=gnu11 $(COMMON) $(SAN) -Wall -c $< -o $@

$(B)/contracts.inc: bin/gen_contracts.py $(LIBHDR) | $(B)/h
	python3 bin/gen_contracts.py $(REPO) $@ >/dev/null

$(B)/h/contracts.o: harness/contracts.cpp $(HHDR) $(if $(findstring VF_FNHOOK,$(HEXTRA)),$(B)/contracts.inc) | $(B)/h
	$(CXX) $(CXXFLAGS) -c $< -o $@

$(B)/h/%.o: harness/%.cpp $(HHDR) | $(B)/h
	$(CXX) $(CXXFLAGS) -c $< -o $@

$(B)/h/%.o: props/%.cpp $(HHDR) | $(B)/h
	$(CXX) $(CXXFLAGS) -c $< -o $@

# rapidcheck driver binary (fork-per-case) + replay
$(B)/vfprop: $(LIBOBJ) $(HOBJ) $(B)/h/world.o
	$(CXX) $(COMMON) $(SAN) -o $@ $(HOBJ) $(B)/h/world.o $(LIBOBJ) -lrapidcheck $(LIBS) $(LDEXTRA)

# libFuzzer binary: same objects, entry from fuzz/fuzz_main.cpp
$(B)/vffuzz: $(LIBOBJ) $(filter-out $(B)/h/main_rc.o,$(HOBJ)) $(B)/h/world.o fuzz/fuzz_main.cpp
	$(CXX) $(CXXFLAGS) -fsanitize=fuzzer -o $@ fuzz/fuzz_main.cpp $(filter-out $(B)/h/main_rc.o,$(HOBJ)) $(B)/h/world.o $(LIBOBJ) $(LIBS)

.PHONY: all
