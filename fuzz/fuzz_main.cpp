// libFuzzer driver: the fuzz input IS the case byte string of a registered property (the same structure-aware
// decoding through DP that rapidcheck uses), executed in-process; the property's own oracle runs inside the
// target and traps on a violation. Library and world state are reset by every iteration (fresh world, the
// library is started and stopped inside the property).
//   VF_FUZZ_PROP=C12|C13|...   property to run          VF_FUZZ_EXCLUDE=a,b   known-finding exclusions
//   VF_FUZZ_STATS=<file>       counters (executions, non-trivial cases, tags) rewritten every 2000 executions and at exit
#include "harness/vf.hpp"
#include <cstdlib>
#include <cstring>
#include <fstream>
#include <map>

using namespace vf;

static const PropInfo *g_prop;
static std::set<std::string> g_excl;
static unsigned long g_execs, g_nontrivial;
static std::map<std::string, unsigned long> g_tags;
static std::set<uint64_t> g_distinct;
static std::string g_stats;

static void flush_stats() {
	if (g_stats.empty()) return;
	std::ofstream f(g_stats + ".tmp");
	f << "{\"executions\": " << g_execs << ", \"nontrivial\": " << g_nontrivial << ", \"distinct_nontrivial\": " << g_distinct.size() << ", \"tags\": {";
	bool first = true;
	for (auto &kv : g_tags) { f << (first ? "" : ", ") << "\"" << kv.first << "\": " << kv.second; first = false; }
	f << "}}\n";
	f.close();
	rename((g_stats + ".tmp").c_str(), g_stats.c_str());
}

extern "C" void vf_on_property_failure(void) { flush_stats(); }

extern "C" int LLVMFuzzerInitialize(int *, char ***) {
	if (!getenv("G_SLICE")) fprintf(stderr, "vffuzz: warning: G_SLICE=always-malloc is not set in the environment (GLib reads it at load time); bin/check sets it\n");
	const char *p = getenv("VF_FUZZ_PROP");
	g_prop = find_prop(p ? p : "C12");
	if (!g_prop) { fprintf(stderr, "unknown property %s\n", p ? p : ""); exit(2); }
	if (const char *e = getenv("VF_FUZZ_EXCLUDE")) {
		std::string cur;
		for (const char *c = e;; c++) {
			if (*c == ',' || !*c) { if (!cur.empty()) g_excl.insert(cur); cur.clear(); if (!*c) break; }
			else cur += *c;
		}
	}
	if (const char *s = getenv("VF_FUZZ_STATS")) g_stats = s;
	atexit(flush_stats);
	return 0;
}

extern "C" int LLVMFuzzerTestOneInput(const uint8_t *data, size_t size) {
	if (size > 4096) return 0;
	ref::Bytes d(data, data + size), sched;
	if (g_prop->sched_scale && size > 8) {            // last eighth of the input = schedule bytes
		size_t k = size / 8;
		sched.assign(d.end() - (long) k, d.end());
		d.resize(size - k);
	}
	Ctx ctx;
	ctx.in_process = true;
	ctx.excluded = g_excl;
	run_case_here(*g_prop, d, sched, ctx);
	g_execs++;
	if (ctx.nontrivial) {
		g_nontrivial++;
		std::string hs = ctx.hash_src.empty() ? ctx.desc.str() : ctx.hash_src;
		if (g_distinct.size() < 2000000) g_distinct.insert(fnv(hs));
	}
	for (auto &t : ctx.tags) g_tags[t]++;
	if (g_execs % 2000 == 0) flush_stats();
	return 0;
}
