// C++ view of libbidib's public header. bidib_send_string_set/get use `namespace` as a
// parameter name, a C++ keyword, so it is renamed for the duration of the include.
#pragma once
extern "C" {
#define namespace namespace_
#include "bidib.h"
#undef namespace
// internal entry points that the repository's own tests use as well
void bidib_set_lowlevel_debug_mode(bool on);
uint8_t *bidib_read_intern_message(void);
}
