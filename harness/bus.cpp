#include "harness/bus.hpp"
#include "ref/msgs.hpp"
#include <algorithm>
#include <sstream>

namespace vf {

void Bus::attach(Session &sess) {
	s = &sess;
	sess.on_write = [this](const uint8_t *d, size_t n) { on_bytes(d, n); };
}

int Bus::find(const ref::Bytes &addr) const {
	for (size_t i = 0; i < nodes.size(); i++)
		if (!nodes[i].gone && nodes[i].addr == addr) return (int) i;
	return -1;
}

int Bus::node_of_board(const std::string &id) const {
	for (size_t i = 0; i < nodes.size(); i++)
		if (!nodes[i].gone && nodes[i].board_id == id) return (int) i;
	return -1;
}

void Bus::build_tree(DP &dp, const cfg::Config &c, const std::vector<bool> &present, int unknown, int max_depth, bool deep) {
	nodes.clear();
	std::vector<int> todo;           // board indices to place
	for (size_t i = 0; i < c.boards.size(); i++)
		if (i < present.size() && present[i]) todo.push_back((int) i);
	// root: a present configured interface board, or an interface unknown to the configuration
	BusNode root;
	int root_board = -1;
	for (int bi : todo)
		if (c.boards[(size_t) bi].is_interface() && dp.chance(170)) { root_board = bi; break; }
	if (root_board >= 0) {
		root.uid = c.boards[(size_t) root_board].uid;
		root.board_id = c.boards[(size_t) root_board].id;
		todo.erase(std::find(todo.begin(), todo.end(), root_board));
	} else {
		root.uid = {0x80, 0x00, 0x0D, 0xFB, 0x00, 0x00, 0x01};
	}
	nodes.push_back(root);
	struct Item { bool known; int board; };
	std::vector<Item> items;
	for (int bi : todo) items.push_back({true, bi});
	for (int u = 0; u < unknown; u++) items.push_back({false, u});
	bool twin = false;
	if (deep && max_depth >= 3 && !items.empty() && dp.chance(60)) {
		// twin branches: two first-level interfaces (not in the configuration), each with a second-level interface on the
		// SAME local address; configured boards are placed beneath them with preference (same second-level byte in
		// different branches: what a subtree computation must not confuse)
		twin = true;
		uint8_t a1 = (uint8_t) dp.range(1, 9), a2 = (uint8_t) (a1 % 9 + 1 + dp.pick(3)), k = (uint8_t) dp.range(1, 9);
		auto add = [&](int par, uint8_t local, uint8_t tag) {
			BusNode n;
			n.uid = {0x80, 0x00, 0x0D, 0xEE, 0xDD, tag, (uint8_t) (0xB0 + tag)};
			n.addr = nodes[(size_t) par].addr;
			n.addr.push_back(local);
			n.parent = par;
			nodes.push_back(n);
			nodes[(size_t) par].children.push_back((int) nodes.size() - 1);
			return (int) nodes.size() - 1;
		};
		int i1 = add(0, a1, 1), i2 = add(0, a2, 2);
		add(i1, k, 3);
		add(i2, k, 4);
	}
	// generated placement order
	for (size_t i = items.size(); i > 1; i--) std::swap(items[i - 1], items[dp.pick((unsigned) i)]);
	for (auto &it : items) {
		BusNode n;
		if (it.known) {
			n.uid = c.boards[(size_t) it.board].uid;
			n.board_id = c.boards[(size_t) it.board].id;
		} else {
			n.uid = {(uint8_t) (dp.chance(100) ? 0x80 | dp.pick(0x20) : dp.pick(0x60)), 0x00, 0x0D, 0xEE, 0xEE, (uint8_t) it.board, (uint8_t) (0xA0 + it.board)};
		}
		// parent: an interface node (class bit 7) that still has room below it
		std::vector<int> parents;
		for (size_t p = 0; p < nodes.size(); p++)
			if ((p == 0 || (nodes[p].uid[0] & 0x80)) && (int) nodes[p].addr.size() < max_depth && nodes[p].children.size() < 30) parents.push_back((int) p);
		int par = parents[dp.weighted({3, 2}) == 0 || parents.size() == 1 ? 0 : dp.pick((unsigned) parents.size())];
		if (twin && dp.chance(190)) {
			std::vector<int> third;
			for (int pc : parents) if (nodes[(size_t) pc].addr.size() == 2) third.push_back(pc);
			if (!third.empty()) par = third[dp.pick((unsigned) third.size())];
		} else if (deep && parents.size() > 1 && dp.chance(170)) {
			// below an interface that is not the root: several branches that reach the third address level
			std::vector<int> inner;
			for (int pc : parents) if (pc != 0) inner.push_back(pc);
			if (!inner.empty()) par = inner[dp.pick((unsigned) inner.size())];
		}
		uint8_t local;
		int guard = 0;
		bool clash;
		do {
			local = (uint8_t) (dp.chance(200) ? dp.range(1, 9) : dp.range(1, 255));
			if (guard++ > 20) local = (uint8_t) (100 + guard);
			clash = false;
			for (int ch : nodes[(size_t) par].children)
				if (nodes[(size_t) ch].addr.back() == local) clash = true;
		} while (clash);
		n.addr = nodes[(size_t) par].addr;
		n.addr.push_back(local);
		n.parent = par;
		nodes.push_back(n);
		nodes[(size_t) par].children.push_back((int) nodes.size() - 1);
	}
}

std::string Bus::describe() const {
	std::ostringstream o;
	for (auto &n : nodes) {
		o << "[" << (n.addr.empty() ? "0" : hex(n.addr)) << " uid=" << hex(n.uid.data(), 7) << (n.board_id.empty() ? " unknown" : " " + n.board_id) << "] ";
	}
	if (silent) o << "SILENT ";
	if (capacity != 64) o << "capacity=" << (int) capacity << " ";
	if (feature_mismatch) o << "feature-mismatch ";
	if (table_change_at >= 0) o << "table-change-at-row=" << table_change_at << "x" << table_changes_left << (table_change_node ? "-of-node-" + std::to_string(table_change_node) : std::string()) << " ";
	if (drop_on_change >= 0) o << "node-" << drop_on_change << "-leaves-at-table-change ";
	return o.str();
}

void Bus::send_from(int idx, uint8_t type, const ref::Bytes &data, uint64_t extra) {
	BusNode &n = nodes[(size_t) idx];
	ref::Msg m;
	m.addr = n.addr;
	m.type = type;
	m.data = data;
	n.up_seq = n.up_seq == 255 ? 1 : (uint8_t) (n.up_seq + 1);
	m.seq = n.up_seq;
	s->inject_packet({m}, answer_delay_us + extra);
}

void Bus::send_from_addr(const ref::Bytes &addr, uint8_t type, const ref::Bytes &data) {
	int i = find(addr);
	if (i >= 0) { send_from(i, type, data); return; }
	ref::Msg m;
	m.addr = addr;
	m.type = type;
	m.data = data;
	m.seq = s->next_up_seq(addr);
	s->inject_packet({m});
}

void Bus::on_bytes(const uint8_t *d, size_t n) {
	partial.insert(partial.end(), d, d + n);
	// complete packets only: [FE] body FE
	for (;;) {
		size_t i = 0;
		while (i < partial.size() && partial[i] == 0xFE) i++;
		if (i >= partial.size()) { partial.clear(); return; }
		size_t e = i;
		while (e < partial.size() && partial[e] != 0xFE) e++;
		if (e >= partial.size()) {          // no closing delimiter yet
			if (i > 0) partial.erase(partial.begin(), partial.begin() + (long) i - 1);
			return;
		}
		ref::Bytes pk;
		pk.push_back(0xFE);
		pk.insert(pk.end(), partial.begin() + (long) i, partial.begin() + (long) e + 1);
		partial.erase(partial.begin(), partial.begin() + (long) e);   // keep the closing delimiter as opener
		ref::StreamDecode dec = ref::decode_strict(pk);
		if (!dec.error.empty()) {
			if (decode_error.empty()) decode_error = dec.error + " packet=" + hex(pk);
			continue;
		}
		for (auto &p : dec.packets) {
			for (auto &m : p.msgs) {
				tx.push_back({vf_now_us(), packets, m});
				if (!silent) { handle(m); if (after_request) after_request(m); }
			}
			packets++;
		}
	}
}

void Bus::handle(const ref::Msg &m) {
	int idx = find(m.addr);
	if (idx < 0) return;                   // nobody there
	BusNode &n = nodes[(size_t) idx];
	requests++;
	const ref::Bytes &d = m.data;
	auto row = [&](size_t k) {
		ref::Bytes r;
		r.push_back(nodetab_version);
		if (k == 0) {
			r.push_back(0);
			r.insert(r.end(), n.uid.begin(), n.uid.end());
		} else {
			const BusNode &c = nodes[(size_t) n.children[k - 1]];
			r.push_back(c.addr.back());
			r.insert(r.end(), c.uid.begin(), c.uid.end());
		}
		return r;
	};
	switch (m.type) {
	case M::SYS_GET_MAGIC: send_from(idx, M::SYS_MAGIC, {0xFE, 0xAF}); break;
	case M::SYS_GET_P_VERSION: send_from(idx, M::SYS_P_VERSION, {0x07, 0x00}); break;
	case M::SYS_GET_UNIQUE_ID: send_from(idx, M::SYS_UNIQUE_ID, ref::Bytes(n.uid.begin(), n.uid.end())); break;
	case M::SYS_GET_SW_VERSION: send_from(idx, M::SYS_SW_VERSION, {1, 2, 3}); break;
	case M::SYS_PING: send_from(idx, M::SYS_PONG, {d.empty() ? (uint8_t) 0 : d[0]}); break;
	case M::SYS_IDENTIFY: send_from(idx, M::SYS_IDENTIFY_STATE, {d.empty() ? (uint8_t) 0 : d[0]}); break;
	case M::SYS_GET_ERROR: send_from(idx, M::SYS_ERROR, {0x00}); break;
	case M::SYS_RESET:
		for (auto &x : nodes) { x.up_seq = 0; x.tab_pos = 0; }
		break;
	case M::GET_PKT_CAPACITY: send_from(idx, M::PKT_CAPACITY, {capacity}); break;
	case M::NODETAB_GETALL:
		n.tab_pos = 0;
		send_from(idx, M::NODETAB_COUNT, {(uint8_t) (1 + n.children.size())});
		break;
	case M::NODETAB_GETNEXT:
		if (idx == table_change_node && table_changes_left > 0 && (int) n.tab_pos == table_change_at) {
			table_changes_left--;
			nodetab_version++;
			n.tab_pos = 0;
			if (table_change_node == 0 && drop_on_change > 0 && drop_on_change < (int) nodes.size() && !nodes[(size_t) drop_on_change].gone) {
				// the node (a leaf directly below the root) leaves the bus: that is why the table changed
				BusNode &g = nodes[(size_t) drop_on_change];
				g.gone = true;
				auto &ch = nodes[0].children;
				ch.erase(std::remove(ch.begin(), ch.end(), drop_on_change), ch.end());
			}
			send_from(idx, M::NODETAB_COUNT, {(uint8_t) (1 + n.children.size())});
		} else if (n.tab_pos < 1 + n.children.size()) {
			send_from(idx, M::NODETAB, row(n.tab_pos));
			n.tab_pos++;
		} else send_from(idx, M::NODE_NA, {255});
		break;
	case M::FEATURE_GETALL: send_from(idx, M::FEATURE_COUNT, {(uint8_t) n.features.size()}); break;
	case M::FEATURE_GETNEXT: send_from(idx, M::FEATURE_NA, {255}); break;
	case M::FEATURE_GET:
		if (!d.empty() && n.features.count(d[0])) send_from(idx, M::FEATURE, {d[0], n.features[d[0]]});
		else send_from(idx, M::FEATURE_NA, {d.empty() ? (uint8_t) 0 : d[0]});
		break;
	case M::FEATURE_SET:
		if (d.size() >= 2) {
			uint8_t v = feature_mismatch ? (uint8_t) (d[1] + 1) : d[1];
			n.features[d[0]] = v;
			send_from(idx, M::FEATURE, {d[0], v});
		}
		break;
	case M::VENDOR_ENABLE: case M::VENDOR_DISABLE: send_from(idx, M::VENDOR_ACK, {0}); break;
	case M::VENDOR_SET: case M::VENDOR_GET: send_from(idx, M::VENDOR, {1, 'a', 1, 'b'}); break;
	case M::STRING_GET: case M::STRING_SET: send_from(idx, M::STRING, {d.size() > 0 ? d[0] : (uint8_t) 0, d.size() > 1 ? d[1] : (uint8_t) 0, 0}); break;
	case M::BM_GET_RANGE:
		if (d.size() >= 2) {
			// a node always answers a range query (an empty or wrapped range is answered with one byte)
			uint8_t size = d[1] > d[0] ? (uint8_t) (d[1] - d[0]) : 8;
			if (size > 128) size = 128;
			if (size < 8) size = 8;
			ref::Bytes r = {d[0], size};
			for (int i = 0; i < size / 8; i++) r.push_back(0);
			send_from(idx, M::BM_MULTIPLE, r);
		}
		break;
	case M::BM_GET_CONFIDENCE: send_from(idx, M::BM_CONFIDENCE, {0, 0, 0}); break;
	case M::BOOST_ON: n.boost_state = 0x80; send_from(idx, M::BOOST_STAT, {n.boost_state}); break;
	case M::BOOST_OFF: n.boost_state = 0x00; send_from(idx, M::BOOST_STAT, {n.boost_state}); break;
	case M::BOOST_QUERY: send_from(idx, M::BOOST_STAT, {n.boost_state}); break;
	case M::ACCESSORY_SET:
		if (d.size() >= 2) {
			n.accessory_aspect[d[0]] = d[1];
			send_from(idx, M::ACCESSORY_STATE, {d[0], d[1], 4, 0, 0});
		}
		break;
	case M::ACCESSORY_GET:
		if (d.size() >= 1) send_from(idx, M::ACCESSORY_STATE, {d[0], n.accessory_aspect.count(d[0]) ? n.accessory_aspect[d[0]] : (uint8_t) 0, 4, 0, 0});
		break;
	case M::ACCESSORY_PARA_SET: case M::ACCESSORY_PARA_GET:
		if (d.size() >= 2) send_from(idx, M::ACCESSORY_PARA, {d[0], d[1], 0});
		break;
	case M::LC_OUTPUT:
		if (d.size() >= 3) send_from(idx, M::LC_STAT, {d[0], d[1], d[2]});
		break;
	case M::LC_PORT_QUERY:
		if (d.size() >= 2) send_from(idx, M::LC_STAT, {d[0], d[1], 0});
		break;
	case M::LC_CONFIGX_GET: case M::LC_CONFIGX_SET:
		if (d.size() >= 2) send_from(idx, M::LC_CONFIGX, {d[0], d[1]});
		break;
	case M::LC_MACRO_HANDLE: if (d.size() >= 2) send_from(idx, M::LC_MACRO_STATE, {d[0], d[1]}); break;
	case M::LC_MACRO_GET: case M::LC_MACRO_SET: send_from(idx, M::LC_MACRO, {0, 0, 0, 0, 0, 0}); break;
	case M::LC_MACRO_PARA_GET: case M::LC_MACRO_PARA_SET: send_from(idx, M::LC_MACRO_PARA, {0, 0, 0, 0, 0, 0}); break;
	case M::CS_SET_STATE:
		if (d.size() >= 1) {
			if (d[0] != 0xFF) n.cs_state = d[0];
			send_from(idx, M::CS_STATE, {n.cs_state});
		}
		break;
	case M::CS_DRIVE:
		if (d.size() >= 2 && answer_drive) send_from(idx, M::CS_DRIVE_ACK, {d[0], d[1], 1});
		break;
	case M::CS_BIN_STATE:
		if (d.size() >= 2) send_from(idx, M::CS_DRIVE_ACK, {d[0], d[1], 1});
		break;
	case M::CS_ACCESSORY:
		if (d.size() >= 2) send_from(idx, M::CS_ACCESSORY_ACK, {d[0], d[1], 1});
		break;
	case M::CS_POM:
		if (d.size() >= 5) send_from(idx, M::CS_POM_ACK, {d[0], d[1], d[2], d[3], d[4], 1});
		break;
	case M::CS_PROG: send_from(idx, M::CS_PROG_STATE, {0, 0, 0, 0, 0}); break;
	case M::FW_UPDATE_OP: send_from(idx, M::FW_UPDATE_STAT, {0, 0}); break;
	default: break;            // no answer (mirrors, acks, enable/disable, clock, ...)
	}
}

}  // namespace vf
