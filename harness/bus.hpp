// Bus simulator: a small model of a BiDiB bus behind the read/write callbacks, written from the
// protocol description. A tree of nodes (unique id, local address, children) answers the
// requests a host sends during enumeration, feature setup and normal operation.
#pragma once
#include "harness/vf.hpp"
#include "harness/config.hpp"
#include <array>
#include <map>
#include <functional>

namespace vf {

struct BusNode {
	std::array<uint8_t, 7> uid{};
	ref::Bytes addr;                  // full address (path of local addresses), empty = root interface
	std::vector<int> children;        // indices into Bus::nodes
	int parent = -1;
	std::string board_id;             // configured board with this uid, "" = unknown to the configuration
	std::map<uint8_t, uint8_t> features;
	uint8_t up_seq = 0;
	// enumeration state
	size_t tab_pos = 0;
	std::map<uint8_t, uint8_t> accessory_aspect;
	uint8_t cs_state = 0;
	uint8_t boost_state = 0;
	bool gone = false;               // removed from the bus
};

struct TxRec {                        // one decoded downlink message
	uint64_t t_us;
	size_t packet;                    // index of the packet it travelled in
	ref::Msg m;
};

struct Bus {
	Session *s = nullptr;
	std::vector<BusNode> nodes;       // nodes[0] = root interface
	std::vector<TxRec> tx;            // complete downlink transcript (decoded)
	size_t packets = 0;
	ref::Bytes partial;               // bytes of an incomplete packet (split writes)
	std::string decode_error;
	// behaviour knobs
	bool silent = false;              // the interface answers nothing
	uint8_t capacity = 64;
	bool feature_mismatch = false;    // FEATURE answers carry value+1
	int table_change_at = -1;         // send NODETAB_COUNT instead of the k-th NODETAB row (once)
	int table_changes_left = 0;
	int table_change_node = 0;        // index of the interface whose table changes while it is being read (0 = the root)
	int drop_on_change = -1;          // node index that disappears at the moment of the table change
	uint8_t nodetab_version = 1;
	bool answer_drive = true;
	uint64_t answer_delay_us = 0;
	unsigned long requests = 0;
	// called after every request that was handled (C12: an adversarial interface adds traffic of its own)
	std::function<void(const ref::Msg &request)> after_request;

	void attach(Session &sess);
	int find(const ref::Bytes &addr) const;
	// builds the tree: root interface + generated placement of the configured boards (present[i]
	// tells whether board i is on the bus) + `unknown` nodes with unique ids not in the config
	void build_tree(DP &dp, const cfg::Config &c, const std::vector<bool> &present, int unknown, int max_depth = 3, bool deep = false);
	std::string describe() const;
	// injects a well-formed uplink message "from" node idx with the node's next sequence number
	void send_from(int idx, uint8_t type, const ref::Bytes &data, uint64_t extra_delay = 0);
	void send_from_addr(const ref::Bytes &addr, uint8_t type, const ref::Bytes &data);
	void on_bytes(const uint8_t *d, size_t n);
	void handle(const ref::Msg &m);
	// transcript helpers
	std::vector<TxRec> since(size_t mark) const { return std::vector<TxRec>(tx.begin() + (long) mark, tx.end()); }
	// address of a configured board on the bus ("" if absent) / node index
	int node_of_board(const std::string &board_id) const;
};

}  // namespace vf
