#include "harness/config.hpp"
#include <set>
#include <sstream>
#include <cstdio>
#include <algorithm>

namespace cfg {

static std::string num(const Config &c, unsigned v) {
	char b[16];
	if (c.hexnums) snprintf(b, sizeof b, "0x%02x", v);
	else if (c.zeropad) snprintf(b, sizeof b, "%03u", v);
	else snprintf(b, sizeof b, "%u", v);
	return b;
}
static std::string hex2(uint8_t hi, uint8_t lo) {
	char b[16];
	snprintf(b, sizeof b, "0x%02x%02x", hi, lo);
	return b;
}

std::string Config::board_yaml() const {
	std::ostringstream o;
	o << "# BiDiB board configuration\n";
	if (boards.empty()) return o.str() + "boards: []\n";
	o << "boards:\n";
	for (auto &b : boards) {
		o << "  - id: " << b.id << "\n";
		char u[40];
		snprintf(u, sizeof u, "0x%02X%02X%02X%02X%02X%02X%02X", b.uid[0], b.uid[1], b.uid[2], b.uid[3], b.uid[4], b.uid[5], b.uid[6]);
		o << "    unique-id: " << u << "\n";
		if (b.features_key) {
			if (b.features.empty()) o << "    features: []\n";
			else {
				o << "    features:\n";
				for (auto &f : b.features) o << "      - number: " << num(*this, f.number) << "\n        value: " << num(*this, f.value) << "\n";
			}
		}
	}
	return o.str();
}

static void print_aspects(std::ostringstream &o, const Config &c, const std::vector<Aspect> &as, const char *ind) {
	if (as.empty()) { o << ind << "aspects: []\n"; return; }
	o << ind << "aspects:\n";
	for (auto &a : as) o << ind << "  - id: " << a.id << "\n" << ind << "    value: " << num(c, a.value) << "\n";
}

std::string Config::track_yaml() const {
	std::ostringstream o;
	o << "# Track configuration\n";
	bool any = false;
	for (auto &b : boards) any |= b.in_track;
	if (!any) return o.str() + "boards: []\n";
	o << "boards:\n";
	for (auto &b : boards) {
		if (!b.in_track) continue;
		o << "  - id: " << b.id << "\n";
		auto board_acc = [&](const char *key, bool k, const std::vector<BoardAcc> &v) {
			if (!k) return;
			if (v.empty()) { o << "    " << key << ": []\n"; return; }
			o << "    " << key << ":\n";
			for (auto &a : v) {
				o << "      - id: " << a.id << "\n        number: " << num(*this, a.number) << "\n";
				print_aspects(o, *this, a.aspects, "        ");
				if (!a.initial.empty()) o << "        initial: " << a.initial << "\n";
			}
		};
		auto dcc_acc = [&](const char *key, bool k, const std::vector<DccAcc> &v) {
			if (!k) return;
			if (v.empty()) { o << "    " << key << ": []\n"; return; }
			o << "    " << key << ":\n";
			for (auto &a : v) {
				o << "      - id: " << a.id << "\n        dcc-address: " << hex2(a.addrh, a.addrl) << "\n        extended: " << num(*this, a.extended) << "\n";
				if (a.aspects.empty()) o << "        aspects: []\n";
				else {
					o << "        aspects:\n";
					for (auto &as : a.aspects) {
						o << "          - id: " << as.id << "\n";
						if (as.ports.empty()) o << "            ports: []\n";
						else {
							o << "            ports:\n";
							for (auto &p : as.ports) o << "              - port: " << num(*this, p.port) << "\n                value: " << num(*this, p.value) << "\n";
						}
					}
				}
				if (!a.initial.empty()) o << "        initial: " << a.initial << "\n";
			}
		};
		board_acc("points-board", b.k_pb, b.points_board);
		dcc_acc("points-dcc", b.k_pd, b.points_dcc);
		board_acc("signals-board", b.k_sb, b.signals_board);
		dcc_acc("signals-dcc", b.k_sd, b.signals_dcc);
		if (b.k_pe) {
			if (b.peripherals.empty()) o << "    peripherals: []\n";
			else {
				o << "    peripherals:\n";
				for (auto &p : b.peripherals) {
					o << "      - id: " << p.id << "\n        number: " << num(*this, p.number) << "\n        port: " << hex2(p.port1, p.port0) << "\n";
					print_aspects(o, *this, p.aspects, "        ");
					if (!p.initial.empty()) {
						o << "        initial: " << p.initial << "\n";
						if (p.extra_type) o << "        type: onebit\n";
					}
				}
			}
		}
		if (b.k_se) {
			if (b.segments.empty()) o << "    segments: []\n";
			else {
				o << "    segments:\n";
				for (auto &s : b.segments) o << "      - id: " << s.id << "\n        address: " << num(*this, s.addr) << "\n        length: " << s.length << "\n";
			}
		}
		if (b.k_re) {
			if (b.reversers.empty()) o << "    reversers: []\n";
			else {
				o << "    reversers:\n";
				for (auto &r : b.reversers) o << "      - id: " << r.id << "\n        cv: " << r.cv << "\n";
			}
		}
	}
	return o.str();
}

std::string Config::train_yaml() const {
	std::ostringstream o;
	o << "# Train configuration\n";
	if (trains.empty()) return o.str() + "trains: []\n";
	o << "trains:\n";
	for (auto &t : trains) {
		o << "  - id: " << t.id << "\n    dcc-address: " << hex2(t.addrh, t.addrl) << "\n    dcc-speed-steps: " << (int) t.steps << "\n";
		if (!t.calibration.empty()) {
			o << "    calibration:\n";
			for (int v : t.calibration) o << "      - " << v << "\n";
		}
		if (t.periph_key) {
			if (t.periphs.empty()) o << "    peripherals: []\n";
			else {
				o << "    peripherals:\n";
				for (auto &p : t.periphs) {
					o << "      - id: " << p.id << "\n        bit: " << (int) p.bit << "\n";
					if (p.initial >= 0) o << "        initial: " << p.initial << "\n";
				}
			}
			if (t.extra_keys) o << "    weight: 100.0g\n    length: 13.0cm\n    type: cargo\n";
		}
	}
	return o.str();
}

std::string Config::summary() const {
	std::ostringstream o;
	o << boards.size() << " boards [";
	for (auto &b : boards) {
		char u[8];
		snprintf(u, sizeof u, "%02X", b.uid[0]);
		o << b.id << "(class " << u << (b.in_track ? "" : ",not-in-track") << " f" << b.features.size() << " pb" << b.points_board.size() << " pd" << b.points_dcc.size()
		  << " sb" << b.signals_board.size() << " sd" << b.signals_dcc.size() << " pe" << b.peripherals.size() << " se" << b.segments.size() << " re" << b.reversers.size() << ") ";
	}
	o << "] " << trains.size() << " trains [";
	for (auto &t : trains) o << t.id << "(" << hex2(t.addrh, t.addrl) << " steps" << (int) t.steps << " cal" << t.calibration.size() << " fn" << t.periphs.size() << ") ";
	o << "]";
	return o.str();
}

// ----------------------------------------------------------------------------- generator

namespace {
struct G {
	DP &dp;
	const GenOpts &o;
	int counter = 0;
	std::set<unsigned> dcc_used;
	std::string id(const char *prefix) {
		counter++;
		// ids from a small alphabet with shared prefixes ("p1", "p11", ...)
		std::string s = prefix + std::to_string(counter);
		if (!o.simple_ids && dp.chance(40)) s += "_x";
		return s;
	}
	void fresh_dcc(uint8_t &h, uint8_t &l) {
		for (int i = 0; i < 300; i++) {
			h = (uint8_t) dp.pick(dp.chance(128) ? 4 : 64);
			if (o.wide_dcc && dp.chance(90)) h = (uint8_t) (h | (dp.pick(3) + 1) << 6);
			l = dp.u8();
			if (i > 20) { h = (uint8_t) (i & 63); l = (uint8_t) (counter * 7 + i * 3); }
			if (dcc_used.insert((unsigned) h << 8 | l).second) return;
		}
	}
	std::vector<Aspect> aspects() {
		std::vector<Aspect> v;
		int n = dp.range(1, 5);
		std::set<int> vals;
		static const char *names[] = {"normal", "reverse", "green", "red", "orange", "a", "b"};
		for (int i = 0; i < n; i++) {
			Aspect a;
			a.id = std::string(names[(i + (int) dp.pick(3)) % 7]) + (i ? std::to_string(i) : "");
			int val;
			int guard = 0;
			do { val = dp.chance(160) ? (int) dp.pick(4) : dp.u8(); if (guard++ > 8) { val = 0; while (vals.count(val)) val++; } } while (!vals.insert(val).second);
			a.value = (uint8_t) val;
			v.push_back(a);
		}
		return v;
	}
	std::vector<DccAspect> dcc_aspects() {
		std::vector<DccAspect> v;
		static const char *rnames[] = {"normal", "reverse", "go", "stop"};
		if (dp.chance(45)) {
			// "ragged" accessory: the aspects do not all name the same ports - one port of its own per aspect, the last aspect
			// optionally with a second port. No aspect's (port, value) set is contained in another's, so the set is unambiguous
			// under every reading of "same port combination".
			int n = dp.range(2, 3);
			std::vector<uint8_t> ports;
			std::set<int> ps;
			for (int i = 0; i < n + 1; i++) {
				int p = (int) dp.pick(32), guard = 0;
				while (!ps.insert(p).second) { p = (p + 1) % 32; if (guard++ > 40) break; }
				ports.push_back((uint8_t) p);
			}
			bool extra = dp.flag();
			// second shape: all aspects share one port with one value (listed first, last or not at all) and differ in a port of
			// their own - still no aspect contained in another
			int shared = dp.chance(100) ? (int) dp.pick(3) : 3;      // 0 first, 1 last, 2 mixed, 3 none
			uint8_t shared_val = (uint8_t) dp.pick(2);
			for (int i = 0; i < n; i++) {
				DccAspect a;
				a.id = rnames[i];
				bool first = shared == 0 || (shared == 2 && (i & 1));
				if (shared != 3 && first) a.ports.push_back({ports[(size_t) n], shared_val});
				a.ports.push_back({ports[(size_t) i], (uint8_t) dp.pick(2)});
				if (shared != 3 && !first) a.ports.push_back({ports[(size_t) n], shared_val});
				if (shared == 3 && extra && i == n - 1) a.ports.push_back({ports[(size_t) n], (uint8_t) dp.pick(2)});
				v.push_back(a);
			}
			return v;
		}
		int nports = dp.range(1, 3);
		std::vector<uint8_t> ports;
		std::set<int> ps;
		for (int i = 0; i < nports; i++) {
			int p;
			int guard = 0;
			do { p = dp.chance(180) ? (int) dp.pick(4) : (int) dp.pick(32); if (guard++ > 8) { p = 0; while (ps.count(p)) p++; } } while (!ps.insert(p).second);
			ports.push_back((uint8_t) p);
		}
		int maxn = 1 << nports;
		int n = dp.range(1, maxn < 4 ? maxn : 4);
		std::set<int> patterns;
		static const char *names[] = {"normal", "reverse", "go", "stop"};
		for (int i = 0; i < n; i++) {
			int pat;
			int guard = 0;
			do { pat = (int) dp.pick((unsigned) maxn); if (guard++ > 8) { pat = 0; while (patterns.count(pat)) pat++; } } while (!patterns.insert(pat).second);
			DccAspect a;
			a.id = names[i];
			for (int k = 0; k < nports; k++) a.ports.push_back({ports[(size_t) k], (uint8_t) ((pat >> k) & 1)});
			v.push_back(a);
		}
		return v;
	}
};
}  // namespace

Config generate(DP &dp, const GenOpts &o) {
	Config c;
	G g{dp, o};
	c.hexnums = !dp.chance(64);
	c.zeropad = !c.hexnums && o.allow_zeropad && dp.chance(128);
	int nb = dp.range(std::max(o.min_boards, o.need_track_output ? 1 : 0), o.max_boards);
	std::set<std::string> uids;
	for (int bi = 0; bi < nb; bi++) {
		Board b;
		b.id = g.id("board");
		// class bits: 0x01 switch, 0x02 booster, 0x04 accessory, 0x10 dcc main, 0x40 occupancy, 0x80 interface
		uint8_t cls = 0;
		static const uint8_t bits[] = {0x01, 0x02, 0x04, 0x10, 0x40, 0x80};
		for (uint8_t bt : bits)
			if (dp.chance(bt == 0x80 ? (unsigned) o.interface_chance : 100u)) cls |= bt;
		if (o.need_track_output && bi == 0) cls |= 0x10;
		b.uid[0] = cls;
		int guard = 0;
		do {
			b.uid[1] = dp.chance(200) ? 0 : dp.u8();
			b.uid[2] = 0x0D;
			for (int k = 3; k < 7; k++) b.uid[(size_t) k] = dp.u8();
			if (guard++ > 5) { b.uid[5] = (uint8_t) bi; b.uid[6] = (uint8_t) guard; }
		} while (!uids.insert(std::string(b.uid.begin(), b.uid.end())).second);
		b.features_key = dp.chance(170);
		if (b.features_key) {
			int nf = dp.range(0, 3);
			std::set<int> fn;
			for (int i = 0; i < nf; i++) {
				Feature f;
				int n;
				int gd = 0;
				do { n = dp.chance(120) ? 3 : (int) dp.pick(dp.chance(128) ? 8 : 256); if (gd++ > 8) { n = 0; while (fn.count(n)) n++; } } while (!fn.insert(n).second);
				f.number = (uint8_t) n;
				f.value = dp.chance(160) ? (uint8_t) dp.pick(2) : dp.u8();
				b.features.push_back(f);
			}
		}
		b.in_track = dp.chance(220);
		if (b.in_track) {
			std::set<int> numbers, pnumbers, ports, segaddr;
			std::set<std::string> cvs;
			auto fresh = [&](std::set<int> &s, int small, int maxv = 255) {
				int v;
				int gd = 0;
				do {
					v = dp.chance(170) ? (int) dp.pick((unsigned) small) : (int) dp.pick((unsigned) maxv + 1);
					if (gd++ > 10) { v = 0; while (s.count(v)) v++; }
				} while (!s.insert(v).second);
				return (uint8_t) v;
			};
			auto board_accs = [&](std::vector<BoardAcc> &v, bool &k, const char *pre) {
				k = dp.chance(150);
				if (!k) return;
				int n = dp.range(0, o.max_items);
				for (int i = 0; i < n; i++) {
					BoardAcc a;
					a.id = g.id(pre);
					a.number = fresh(numbers, 8, 127);
					a.aspects = g.aspects();
					for (auto &as : a.aspects) as.value &= 0x7f;
					// keep aspect values unique after masking
					std::set<int> sv;
					for (auto &as : a.aspects) { while (!sv.insert(as.value).second) as.value = (uint8_t) ((as.value + 1) & 0x7f); }
					if (dp.chance(150)) a.initial = a.aspects[dp.pick((unsigned) a.aspects.size())].id;
					v.push_back(a);
				}
			};
			auto dcc_accs = [&](std::vector<DccAcc> &v, bool &k, const char *pre) {
				k = dp.chance(120);
				if (!k) return;
				int n = dp.range(0, o.max_items);
				for (int i = 0; i < n; i++) {
					DccAcc a;
					a.id = g.id(pre);
					g.fresh_dcc(a.addrh, a.addrl);
					a.extended = (uint8_t) dp.pick(2);
					a.aspects = g.dcc_aspects();
					if (dp.chance(150)) a.initial = a.aspects[dp.pick((unsigned) a.aspects.size())].id;
					v.push_back(a);
				}
			};
			board_accs(b.points_board, b.k_pb, "point");
			dcc_accs(b.points_dcc, b.k_pd, "dpoint");
			board_accs(b.signals_board, b.k_sb, "signal");
			dcc_accs(b.signals_dcc, b.k_sd, "dsignal");
			b.k_pe = dp.chance(150);
			if (b.k_pe) {
				int n = dp.range(0, o.max_items);
				for (int i = 0; i < n; i++) {
					Periph p;
					p.id = g.id("periph");
					p.number = fresh(pnumbers, 8);
					int pv = fresh(ports, 6);
					p.port0 = (uint8_t) pv;
					p.port1 = dp.chance(60) ? dp.u8() : 0;
					p.aspects = g.aspects();
					if (dp.chance(150)) { p.initial = p.aspects[dp.pick((unsigned) p.aspects.size())].id; p.extra_type = dp.chance(80); }
					b.peripherals.push_back(p);
				}
			}
			b.k_se = dp.chance(180) || o.need_segments;
			if (b.k_se) {
				int n = dp.range(o.need_segments ? 1 : 0, o.max_items + 2);
				for (int i = 0; i < n; i++) {
					Segment s;
					s.id = g.id("seg");
					s.addr = fresh(segaddr, 12);
					s.length = std::to_string(dp.range(1, 60)) + "." + std::to_string(dp.pick(10)) + "cm";
					b.segments.push_back(s);
				}
			}
			b.k_re = dp.chance(100);
			if (b.k_re) {
				int n = dp.range(0, 2);
				for (int i = 0; i < n; i++) {
					Reverser r;
					r.id = g.id("rev");
					int gd = 0;
					do { r.cv = std::to_string(30000 + dp.range(0, 200) + gd * 201); gd++; } while (!cvs.insert(r.cv).second);
					b.reversers.push_back(r);
				}
			}
		}
		c.boards.push_back(b);
	}
	int nt = dp.range(0, o.max_trains);
	for (int ti = 0; ti < nt; ti++) {
		Train t;
		t.id = g.id("train");
		g.fresh_dcc(t.addrh, t.addrl);
		static const uint8_t steps[] = {14, 28, 126};
		t.steps = steps[dp.pick(3)];
		if (dp.chance(120)) {
			int base = dp.range(0, 20);
			for (int i = 0; i < 9; i++) t.calibration.push_back(std::min(126, base + i * dp.range(1, 13)));
		}
		// documented layout: a calibration block is always followed by a peripherals block
		t.periph_key = dp.chance(180) || !t.calibration.empty();
		if (t.periph_key) {
			int n = dp.range(0, 4);
			std::set<int> bits;
			for (int i = 0; i < n; i++) {
				TrainPeriph p;
				static const char *names[] = {"light", "head_light", "cabin_light", "horn", "smoke"};
				p.id = std::string(names[i]) ;
				int bit;
				int gd = 0;
				do { bit = dp.chance(200) ? (int) dp.pick(5) : (int) dp.pick(32); if (gd++ > 10) { bit = 0; while (bits.count(bit)) bit++; } } while (!bits.insert(bit).second);
				p.bit = (uint8_t) bit;
				p.initial = dp.chance(120) ? (int) dp.pick(2) : -1;
				t.periphs.push_back(p);
			}
			t.extra_keys = dp.chance(60);
		}
		c.trains.push_back(t);
	}
	return c;
}

// ----------------------------------------------------------------------------- faults

const char *const FAULT_CLASSES[] = {
    "dup-board-id", "dup-board-unique-id", "dup-point-id", "dup-signal-id", "dup-peripheral-id", "dup-segment-id",
    "dup-reverser-id", "dup-train-id", "dup-accessory-number", "dup-peripheral-number", "dup-peripheral-port",
    "dup-segment-address", "dup-reverser-cv", "dcc-address-shared", "dup-aspect-id", "dup-aspect-value",
    "initial-undeclared", "accessory-without-aspects", "calibration-not-9-values", "calibration-value>126",
    "bad-speed-steps", "function-bit>31", "dup-function-bit", "track-board-not-in-board-file", "malformed-value",
    "train-peripheral-incomplete",
};
const int N_FAULT_CLASSES = sizeof FAULT_CLASSES / sizeof *FAULT_CLASSES;

namespace {
template <class T> T *pick_ptr(std::vector<T *> &v, DP &dp) { return v.empty() ? nullptr : v[dp.pick((unsigned) v.size())]; }
}

Faulted inject_fault(const Config &orig, int cls, DP &dp) {
	Config c = orig;
	Faulted f;
	bool ok = false;
	std::vector<Board *> tb;
	for (auto &b : c.boards) if (b.in_track) tb.push_back(&b);
	// collections
	std::vector<BoardAcc *> bpoints, bsignals;
	std::vector<DccAcc *> dpoints, dsignals;
	std::vector<Periph *> periphs;
	std::vector<Segment *> segs;
	std::vector<Reverser *> revs;
	for (auto *b : tb) {
		for (auto &x : b->points_board) bpoints.push_back(&x);
		for (auto &x : b->signals_board) bsignals.push_back(&x);
		for (auto &x : b->points_dcc) dpoints.push_back(&x);
		for (auto &x : b->signals_dcc) dsignals.push_back(&x);
		for (auto &x : b->peripherals) periphs.push_back(&x);
		for (auto &x : b->segments) segs.push_back(&x);
		for (auto &x : b->reversers) revs.push_back(&x);
	}
	auto two = [&](size_t n, size_t &i, size_t &j) {
		if (n < 2) return false;
		i = dp.pick((unsigned) n);
		j = dp.pick((unsigned) n - 1);
		if (j >= i) j++;
		return true;
	};
	size_t i = 0, j = 0;
	std::string name = FAULT_CLASSES[cls];
	if (name == "dup-board-id") {
		if (two(c.boards.size(), i, j)) {
			// the track file refers to boards by id: keep it consistent by dropping the renamed board from it
			c.boards[j].in_track = false;
			c.boards[j].id = c.boards[i].id;
			ok = true;
		}
	} else if (name == "dup-board-unique-id") {
		if (two(c.boards.size(), i, j)) { c.boards[j].uid = c.boards[i].uid; ok = true; }
	} else if (name == "dup-point-id") {
		std::vector<std::string *> ids;
		for (auto *x : bpoints) ids.push_back(&x->id);
		for (auto *x : dpoints) ids.push_back(&x->id);
		if (two(ids.size(), i, j)) { *ids[j] = *ids[i]; ok = true; }
	} else if (name == "dup-signal-id") {
		std::vector<std::string *> ids;
		for (auto *x : bsignals) ids.push_back(&x->id);
		for (auto *x : dsignals) ids.push_back(&x->id);
		if (two(ids.size(), i, j)) { *ids[j] = *ids[i]; ok = true; }
	} else if (name == "dup-peripheral-id") {
		if (two(periphs.size(), i, j)) { periphs[j]->id = periphs[i]->id; ok = true; }
	} else if (name == "dup-segment-id") {
		if (two(segs.size(), i, j)) { segs[j]->id = segs[i]->id; ok = true; }
	} else if (name == "dup-reverser-id") {
		if (two(revs.size(), i, j)) { revs[j]->id = revs[i]->id; ok = true; }
	} else if (name == "dup-train-id") {
		if (two(c.trains.size(), i, j)) { c.trains[j].id = c.trains[i].id; ok = true; }
	} else if (name == "dup-accessory-number") {
		std::vector<Board *> cand;
		bool sig = dp.flag();
		for (auto *b : tb) if ((sig ? b->signals_board.size() : b->points_board.size()) >= 2) cand.push_back(b);
		if (cand.empty()) { sig = !sig; for (auto *b : tb) if ((sig ? b->signals_board.size() : b->points_board.size()) >= 2) cand.push_back(b); }
		if (Board *b = pick_ptr(cand, dp)) {
			auto &v = sig ? b->signals_board : b->points_board;
			two(v.size(), i, j);
			v[j].number = v[i].number;
			ok = true;
		}
	} else if (name == "dup-peripheral-number" || name == "dup-peripheral-port") {
		std::vector<Board *> cand;
		for (auto *b : tb) if (b->peripherals.size() >= 2) cand.push_back(b);
		if (Board *b = pick_ptr(cand, dp)) {
			two(b->peripherals.size(), i, j);
			if (name == "dup-peripheral-number") b->peripherals[j].number = b->peripherals[i].number;
			else { b->peripherals[j].port0 = b->peripherals[i].port0; b->peripherals[j].port1 = b->peripherals[i].port1; }
			ok = true;
		}
	} else if (name == "dup-segment-address") {
		std::vector<Board *> cand;
		for (auto *b : tb) if (b->segments.size() >= 2) cand.push_back(b);
		if (Board *b = pick_ptr(cand, dp)) { two(b->segments.size(), i, j); b->segments[j].addr = b->segments[i].addr; ok = true; }
	} else if (name == "dup-reverser-cv") {
		std::vector<Board *> cand;
		for (auto *b : tb) if (b->reversers.size() >= 2) cand.push_back(b);
		if (Board *b = pick_ptr(cand, dp)) { two(b->reversers.size(), i, j); b->reversers[j].cv = b->reversers[i].cv; ok = true; }
	} else if (name == "dcc-address-shared") {
		struct Ref { uint8_t *h, *l; };
		std::vector<Ref> refs;
		for (auto *x : dpoints) refs.push_back({&x->addrh, &x->addrl});
		for (auto *x : dsignals) refs.push_back({&x->addrh, &x->addrl});
		for (auto &t : c.trains) refs.push_back({&t.addrh, &t.addrl});
		if (two(refs.size(), i, j)) { *refs[j].h = *refs[i].h; *refs[j].l = *refs[i].l; ok = true; }
	} else if (name == "dup-aspect-id" || name == "dup-aspect-value") {
		std::vector<std::vector<Aspect> *> lists;
		for (auto *x : bpoints) if (x->aspects.size() >= 2) lists.push_back(&x->aspects);
		for (auto *x : bsignals) if (x->aspects.size() >= 2) lists.push_back(&x->aspects);
		for (auto *x : periphs) if (x->aspects.size() >= 2) lists.push_back(&x->aspects);
		std::vector<std::vector<DccAspect> *> dlists;
		for (auto *x : dpoints) if (x->aspects.size() >= 2) dlists.push_back(&x->aspects);
		for (auto *x : dsignals) if (x->aspects.size() >= 2) dlists.push_back(&x->aspects);
		if (!dlists.empty() && (lists.empty() || dp.chance(90))) {
			auto *l = dlists[dp.pick((unsigned) dlists.size())];
			two(l->size(), i, j);
			if (name == "dup-aspect-id") (*l)[j].id = (*l)[i].id;
			else (*l)[j].ports = (*l)[i].ports;
			ok = true;
		} else if (!lists.empty()) {
			auto *l = lists[dp.pick((unsigned) lists.size())];
			two(l->size(), i, j);
			if (name == "dup-aspect-id") (*l)[j].id = (*l)[i].id;
			else (*l)[j].value = (*l)[i].value;
			ok = true;
		}
	} else if (name == "initial-undeclared" || name == "accessory-without-aspects") {
		std::vector<int> kinds;
		if (!bpoints.empty()) kinds.push_back(0);
		if (!bsignals.empty()) kinds.push_back(1);
		if (!dpoints.empty()) kinds.push_back(2);
		if (!dsignals.empty()) kinds.push_back(3);
		if (!periphs.empty()) kinds.push_back(4);
		if (!kinds.empty()) {
			int k = kinds[dp.pick((unsigned) kinds.size())];
			bool undeclared = name == "initial-undeclared";
			auto doit = [&](auto *x) {
				if (undeclared) x->initial = "nosuchaspect";
				else { x->aspects.clear(); x->initial.clear(); }
			};
			if (k == 0) doit(bpoints[dp.pick((unsigned) bpoints.size())]);
			else if (k == 1) doit(bsignals[dp.pick((unsigned) bsignals.size())]);
			else if (k == 2) doit(dpoints[dp.pick((unsigned) dpoints.size())]);
			else if (k == 3) doit(dsignals[dp.pick((unsigned) dsignals.size())]);
			else doit(periphs[dp.pick((unsigned) periphs.size())]);
			ok = true;
		}
	} else if (name == "calibration-not-9-values" || name == "calibration-value>126") {
		if (!c.trains.empty()) {
			Train &t = c.trains[dp.pick((unsigned) c.trains.size())];
			if (t.calibration.empty()) for (int k = 0; k < 9; k++) t.calibration.push_back(10 * k + 5);
			if (name == "calibration-not-9-values") {
				if (dp.flag()) t.calibration.resize((size_t) dp.range(1, 8));
				else t.calibration.push_back(100);
			} else t.calibration[dp.pick(9)] = dp.range(127, 255);
			ok = true;
		}
	} else if (name == "bad-speed-steps") {
		if (!c.trains.empty()) {
			static const uint8_t bad[] = {0, 1, 13, 15, 27, 29, 125, 127, 128, 255};
			c.trains[dp.pick((unsigned) c.trains.size())].steps = bad[dp.pick(sizeof bad)];
			ok = true;
		}
	} else if (name == "function-bit>31" || name == "dup-function-bit") {
		std::vector<Train *> cand;
		for (auto &t : c.trains) if (t.periphs.size() >= (name == "dup-function-bit" ? 2u : 1u)) cand.push_back(&t);
		if (Train *t = pick_ptr(cand, dp)) {
			if (name == "function-bit>31") t->periphs[dp.pick((unsigned) t->periphs.size())].bit = (uint8_t) dp.range(32, 255);
			else { two(t->periphs.size(), i, j); t->periphs[j].bit = t->periphs[i].bit; }
			ok = true;
		}
	} else if (name == "track-board-not-in-board-file") {
		if (!tb.empty()) {
			// the board keeps its track entry but disappears from the board file: print track first
			Board *b = tb[dp.pick((unsigned) tb.size())];
			f.track = c.track_yaml();
			std::string gone = b->id;
			c.boards.erase(std::remove_if(c.boards.begin(), c.boards.end(), [&](const Board &x) { return x.id == gone; }), c.boards.end());
			f.board = c.board_yaml();
			f.train = c.train_yaml();
			f.cls = name;
			return f;
		}
	} else if (name == "train-peripheral-incomplete") {
		// textual: one function mapping of a train loses its bit, its id, or everything
		f.board = c.board_yaml();
		f.track = c.track_yaml();
		f.train = c.train_yaml();
		std::vector<size_t> pos;
		for (size_t p = f.train.find("      - id: "); p != std::string::npos; p = f.train.find("      - id: ", p + 1))
			if (f.train.compare(f.train.find('\n', p) + 1, 13, "        bit: ") == 0) pos.push_back(p);
		if (pos.empty()) return f;
		size_t p = pos[dp.pick((unsigned) pos.size())];
		size_t id_end = f.train.find('\n', p) + 1, bit_end = f.train.find('\n', id_end) + 1;
		switch (dp.pick(3)) {
		case 0: f.train.erase(id_end, bit_end - id_end); break;                                            // no bit
		case 1: f.train.replace(p, bit_end - p, "      - " + f.train.substr(id_end + 8, bit_end - id_end - 8)); break;   // no id
		default: {                                                                                        // an empty record
			size_t rec_end = bit_end;
			if (f.train.compare(rec_end, 17, "        initial: ") == 0) rec_end = f.train.find('\n', rec_end) + 1;
			f.train.replace(p, rec_end - p, "      - {}\n");
		}
		}
		f.cls = name;
		return f;
	} else if (name == "malformed-value") {
		// textual: replace one numeric token by a malformed one
		f.board = c.board_yaml();
		f.track = c.track_yaml();
		f.train = c.train_yaml();
		std::string *files[3] = {&f.board, &f.track, &f.train};
		static const char *keys[] = {"unique-id: ", "number: ", "value: ", "dcc-address: ", "extended: ", "port: ", "address: ", "dcc-speed-steps: ", "bit: ", "initial: 0", "initial: 1"};
		static const char *bad[] = {"0xZZ", "256", "-1", "0x100", "1x", "12abc", "0x", "0x1234567", "0xDA000D680001", ""};
		for (int tries = 0; tries < 40 && !ok; tries++) {
			std::string &s = *files[dp.pick(3)];
			std::string key = keys[dp.pick(sizeof keys / sizeof *keys)];
			std::vector<size_t> pos;
			for (size_t p = s.find(key); p != std::string::npos; p = s.find(key, p + 1)) pos.push_back(p);
			if (pos.empty()) continue;
			size_t p = pos[dp.pick((unsigned) pos.size())];
			size_t vstart = p + (key.rfind("initial", 0) == 0 ? 9 : key.size());
			size_t vend = s.find('\n', vstart);
			std::string b = bad[dp.pick(sizeof bad / sizeof *bad)];
			if (b.empty()) b = "\"\"";
			s.replace(vstart, vend - vstart, b);
			ok = true;
		}
		if (ok) f.cls = name;
		return f;
	}
	if (!ok) return f;
	f.cls = name;
	f.board = c.board_yaml();
	f.track = c.track_yaml();
	f.train = c.train_yaml();
	return f;
}

}  // namespace cfg
