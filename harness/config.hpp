// R-config: configuration value, generator (from the case bytes), YAML printer following the
// documented layout of example/config/*.yml and test/unit/*_config, and the single-fault
// mutations of the C14 rejection list.
#pragma once
#include "harness/dp.hpp"
#include <string>
#include <vector>
#include <array>
#include <cstdint>

namespace cfg {

struct Aspect { std::string id; uint8_t value = 0; };
struct DccPort { uint8_t port = 0, value = 0; };
struct DccAspect { std::string id; std::vector<DccPort> ports; };
struct BoardAcc {            // points-board / signals-board
	std::string id; uint8_t number = 0; std::vector<Aspect> aspects; std::string initial;
};
struct DccAcc {              // points-dcc / signals-dcc
	std::string id; uint8_t addrh = 0, addrl = 0; uint8_t extended = 0; std::vector<DccAspect> aspects; std::string initial;
};
struct Periph {
	std::string id; uint8_t number = 0; uint8_t port1 = 0, port0 = 0; std::vector<Aspect> aspects; std::string initial;
	bool extra_type = false;    // trailing "type: onebit" as in the test configuration
};
struct Segment { std::string id; uint8_t addr = 0; std::string length; };
struct Reverser { std::string id; std::string cv; };
struct Feature { uint8_t number = 0, value = 0; };
struct Board {
	std::string id;
	std::array<uint8_t, 7> uid{};
	bool features_key = false;
	std::vector<Feature> features;
	bool in_track = false;      // has an entry in the track file
	std::vector<BoardAcc> points_board, signals_board;
	std::vector<DccAcc> points_dcc, signals_dcc;
	std::vector<Periph> peripherals;
	std::vector<Segment> segments;
	std::vector<Reverser> reversers;
	// which (possibly empty) sections are written
	bool k_pb = false, k_pd = false, k_sb = false, k_sd = false, k_pe = false, k_se = false, k_re = false;
	bool secack() const {
		for (auto &f : features) if (f.number == 3 && f.value > 0) return true;
		return false;
	}
	bool is_booster() const { return uid[0] & 0x02; }
	bool is_track_output() const { return uid[0] & 0x10; }
	bool is_interface() const { return uid[0] & 0x80; }
};
struct TrainPeriph { std::string id; uint8_t bit = 0; int initial = -1; };
struct Train {
	std::string id; uint8_t addrh = 0, addrl = 0; uint8_t steps = 14;
	std::vector<int> calibration;       // empty or 9 values
	bool periph_key = false;
	std::vector<TrainPeriph> periphs;
	bool extra_keys = false;            // weight/length/type after peripherals (example layout)
};
struct Config {
	std::vector<Board> boards;
	std::vector<Train> trains;
	bool hexnums = true;
	bool zeropad = false;            // decimal byte values written with leading zeros (008, 010): still decimal
	// raw overrides used by fault injection (printed instead of the structured value when set)
	std::string board_yaml() const;
	std::string track_yaml() const;
	std::string train_yaml() const;
	std::string summary() const;
	const Board *board(const std::string &id) const {
		for (auto &b : boards) if (b.id == id) return &b;
		return nullptr;
	}
};

struct GenOpts {
	int max_boards = 4;
	int min_boards = 0;
	int max_items = 3;         // per section
	int max_trains = 4;
	bool need_track_output = false;   // at least one board with the DCC-main class bit
	bool need_segments = false;
	bool simple_ids = true;
	int interface_chance = 100;       // /256: probability of the interface class bit per board
	bool allow_zeropad = false;       // C14: decimal numbers may carry leading zeros
	bool wide_dcc = false;            // DCC address high bytes over 0..255 (C14 only: other properties rely on 14-bit addresses)
};

// Valid configuration (by construction) drawn from the case bytes.
Config generate(DP &dp, const GenOpts &o = GenOpts());

// Single-fault mutations of the C14 rejection list. Returns the name of the applied fault class
// or "" when the class is not applicable to this configuration. `raw_*` output: when a fault
// needs a textual change (malformed value) the YAML text is patched after printing.
struct Faulted {
	std::string cls;            // fault class name, "" = not applicable
	std::string board, track, train;
};
extern const char *const FAULT_CLASSES[];
extern const int N_FAULT_CLASSES;
Faulted inject_fault(const Config &c, int cls, DP &dp);

}  // namespace cfg
