// Lock-contract monitor (C10): the library objects of the flavours `asanfn` and `tsan` are compiled with
// -finstrument-functions; the entry hook below looks the callee up in the table generated from the
// "Shall only be called with X acquired" comments of the library's internal headers
// (bin/gen_contracts.py -> contracts.inc) and checks the calling thread's held-set in the world's lock layer.
#include "harness/contracts.hpp"
#include "world/world.h"
#include <atomic>
#include <cstring>
#include <cstdio>
#include <algorithm>
#include <vector>
#include <dlfcn.h>

#ifdef VF_FNHOOK

extern "C" {
#define LK(l, m) extern char l[];
#define CONTRACT(fn, text, locks) void fn(void); locks
#include VF_CONTRACTS_INC
#undef LK
#undef CONTRACT
}

namespace {
struct Req { const void *lock; int mode; const char *name; };
struct Con { const void *fn; const char *name; const char *text; Req req[4]; };
#define LK(l, m) {(const void *) l, m, #l},
#define CONTRACT(f, text, locks) {(const void *) &f, #f, text, {locks}},
Con table[] = {
#include VF_CONTRACTS_INC
};
#undef LK
#undef CONTRACT
const size_t NCON = sizeof table / sizeof *table;
const void *lo_fn = nullptr, *hi_fn = nullptr;

const int MAXV = 32;
char viol[MAXV][400];
std::atomic<unsigned> nviol{0};
std::atomic<unsigned long> nchecked{0};
std::atomic<bool> active{false};
std::atomic<unsigned long> hits[64];

thread_local const void *shadow[256];
thread_local int depth = 0;

__attribute__((no_instrument_function)) const char *sym(const void *p, char *buf, size_t n) {
	Dl_info di;
	if (dladdr(p, &di) && di.dli_sname) snprintf(buf, n, "%s", di.dli_sname);
	else snprintf(buf, n, "%p", p);
	return buf;
}
}  // namespace

extern "C" __attribute__((no_instrument_function)) void __cyg_profile_func_enter(void *fn, void *site) {
	(void) site;
	const void *caller = depth > 0 && depth <= 256 ? shadow[depth - 1] : nullptr;
	if (depth < 256) shadow[depth] = fn;
	depth++;
	if (!active.load(std::memory_order_relaxed)) return;
	if (fn < lo_fn || fn > hi_fn) return;
	for (size_t i = 0; i < NCON; i++) {
		if (table[i].fn != fn) continue;
		nchecked.fetch_add(1, std::memory_order_relaxed);
		if (i < 64) hits[i].fetch_add(1, std::memory_order_relaxed);
		for (const Req &r : table[i].req) {
			if (!r.lock) break;
			int h = vf_holds(vf_self(), r.lock);
			if (h == 0 || (r.mode == 1 && h != 1)) {
				unsigned k = nviol.fetch_add(1, std::memory_order_relaxed);
				if (k < MAXV) {
					char cb[120];
					snprintf(viol[k], sizeof viol[0], "%s called by %s (thread t%d) without %s%s [contract: %s]", table[i].name, sym(caller, cb, sizeof cb), vf_self(),
					         r.name, r.mode == 2 ? " (at least read)" : "", table[i].text);
				}
			}
		}
		return;
	}
}
extern "C" __attribute__((no_instrument_function)) void __cyg_profile_func_exit(void *fn, void *site) {
	(void) fn; (void) site;
	if (depth > 0) depth--;
}

namespace vf {
namespace contracts {
bool available() { return true; }
namespace {
struct InitRange {       // before any library thread exists
	InitRange() {
		lo_fn = hi_fn = table[0].fn;
		for (size_t i = 0; i < NCON; i++) { lo_fn = std::min(lo_fn, table[i].fn); hi_fn = std::max(hi_fn, table[i].fn); }
	}
} init_range;
}
void enable(bool on) { active.store(on, std::memory_order_relaxed); }
size_t violations() { unsigned k = nviol.load(std::memory_order_relaxed); return k > (unsigned) MAXV ? MAXV : k; }
const char *violation(size_t i) { return i < violations() ? viol[i] : ""; }
unsigned long checked() { return nchecked.load(std::memory_order_relaxed); }
size_t table_size() { return NCON; }
size_t distinct_checked() { size_t n = 0; for (size_t i = 0; i < NCON && i < 64; i++) if (hits[i].load(std::memory_order_relaxed)) n++; return n; }
}  // namespace contracts
}  // namespace vf

#else

namespace vf {
namespace contracts {
bool available() { return false; }
void enable(bool) {}
size_t violations() { return 0; }
const char *violation(size_t) { return ""; }
unsigned long checked() { return 0; }
size_t table_size() { return 0; }
size_t distinct_checked() { return 0; }
}  // namespace contracts
}  // namespace vf

#endif
