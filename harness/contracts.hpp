// Lock-contract monitor interface (implemented in contracts.cpp; a no-op unless the flavour instruments the library).
#pragma once
#include <cstddef>
namespace vf {
namespace contracts {
bool available();
void enable(bool on);
size_t violations();
const char *violation(size_t i);
unsigned long checked();          // contract checks performed
size_t table_size();
size_t distinct_checked();        // distinct internal accessors reached
}
}
