// vfprop: rapidcheck driver (generation + shrinking in the parent, every case executed in a
// forked child), replay of saved cases, statistics for the evidence files.
//
//   vfprop run <ID> --cases N --size S --seed K --out stats.json --replays DIR [--exclude a,b]
//   vfprop replay <ID> <case-file> [--exclude a,b]      exit 0 = holds, 1 = fails
//   vfprop list
#include <rapidcheck.h>
#include "harness/vf.hpp"
#include <fstream>
#include <iostream>
#include <chrono>
#include <unistd.h>
#include <cstring>
#include <sys/stat.h>

using namespace vf;

static std::string json_escape(const std::string &s) {
	std::string o;
	for (unsigned char c : s) {
		switch (c) {
		case '"': o += "\\\""; break;
		case '\\': o += "\\\\"; break;
		case '\n': o += "\\n"; break;
		case '\r': o += "\\r"; break;
		case '\t': o += "\\t"; break;
		default:
			if (c < 0x20 || c >= 0x7f) {
				char b[8];
				snprintf(b, sizeof b, "\\u%04x", c);
				o += b;
			} else o += (char) c;
		}
	}
	return o;
}

static bool load_case(const std::string &path, ref::Bytes &data, ref::Bytes &sched) {
	std::ifstream f(path);
	if (!f) return false;
	std::string line;
	while (std::getline(f, line)) {
		if (line.rfind("data ", 0) == 0) data = unhex(line.substr(5));
		else if (line.rfind("sched ", 0) == 0) sched = unhex(line.substr(6));
	}
	return true;
}

static void save_case(const std::string &path, const std::string &prop, const ref::Bytes &data,
                      const ref::Bytes &sched, const Verdict &v) {
	std::ofstream f(path);
	f << "# libbidib verification case; replay: bin/check " << prop << " --replay " << path << "\n";
	f << "property " << prop << "\n";
	f << "data " << hex(data) << "\n";
	f << "sched " << hex(sched) << "\n";
	f << "signature " << v.signature << "\n";
	std::istringstream m(v.msg);
	std::string l;
	while (std::getline(m, l)) f << "# failure: " << l << "\n";
	std::istringstream d(v.desc);
	while (std::getline(d, l)) f << "# case: " << l << "\n";
	std::istringstream e(v.stderr_tail);
	int k = 0;
	while (std::getline(e, l) && k++ < 60) f << "# diag: " << l << "\n";
}

static std::set<std::string> split_set(const std::string &s) {
	std::set<std::string> r;
	std::string cur;
	for (char c : s) {
		if (c == ',') { if (!cur.empty()) r.insert(cur); cur.clear(); }
		else cur += c;
	}
	if (!cur.empty()) r.insert(cur);
	return r;
}

int main(int argc, char **argv) {
	// GLib's slice allocator hides use-after-free / double free of GString, GArray ... headers
	// from AddressSanitizer; route everything through malloc (must happen before GLib is used)
	// ... and GLib reads G_SLICE in a load-time constructor: setting it here is too late, so re-execute once.
	if (!getenv("G_SLICE") || strcmp(getenv("G_SLICE"), "always-malloc")) {
		setenv("G_SLICE", "always-malloc", 1);
		execv("/proc/self/exe", argv);
	}
	if (argc < 2) { fprintf(stderr, "usage: vfprop run|replay|list ...\n"); return 2; }
	std::string cmd = argv[1];
	if (cmd == "list") {
		for (auto &p : props()) printf("%s\t%s\n", p.id, p.rule);
		return 0;
	}
	if (argc < 3) return 2;
	const PropInfo *p = find_prop(argv[2]);
	if (!p) { fprintf(stderr, "unknown property %s\n", argv[2]); return 2; }
	std::map<std::string, std::string> opt;
	std::vector<std::string> pos;
	for (int i = 3; i < argc; i++) {
		std::string a = argv[i];
		if (a.rfind("--", 0) == 0 && i + 1 < argc) { opt[a.substr(2)] = argv[i + 1]; i++; }
		else pos.push_back(a);
	}
	std::set<std::string> excluded = split_set(opt["exclude"]);

	if (cmd == "replay") {
		if (pos.empty()) return 2;
		ref::Bytes data, sched;
		if (!load_case(pos[0], data, sched)) { fprintf(stderr, "cannot read %s\n", pos[0].c_str()); return 2; }
		Verdict v = run_case_forked(*p, data, sched, excluded);
		if (opt.count("edges")) for (auto &e : v.lock_edges) printf("EDGE %s\n", e.c_str());
		if (v.ok) { printf("REPLAY-PASS property=%s file=%s\n", p->id, pos[0].c_str()); return 0; }
		printf("REPLAY-FAIL property=%s file=%s signature=%s\n%s\n", p->id, pos[0].c_str(),
		       v.signature.c_str(), v.msg.c_str());
		if (opt.count("verbose")) printf("--- case ---\n%s\n--- diag ---\n%s\n", v.desc.c_str(), v.stderr_tail.c_str());
		return v.signature == "wallclock-backstop" ? 3 : 1;
	}

	if (cmd != "run") return 2;
	long cases = atol(opt.count("cases") ? opt["cases"].c_str() : "100");
	int max_size = atoi(opt.count("size") ? opt["size"].c_str() : "100");
	std::string seed = opt.count("seed") ? opt["seed"] : "1";
	std::string out = opt["out"];
	std::string rdir = opt.count("replays") ? opt["replays"] : "replays";
	mkdir(rdir.c_str(), 0755);

	std::string corpus = opt.count("corpus") ? opt["corpus"] : "";
	if (!corpus.empty()) mkdir(corpus.c_str(), 0755);
	long corpus_written = 0;
	long max_shrinks = atol(opt.count("max-shrinks") ? opt["max-shrinks"].c_str() : "1500");
	long evals = 0, nontriv = 0, shrink_runs = 0;
	std::set<uint64_t> distinct_nt, distinct_all;
	std::map<std::string, long> tagc, counters;
	std::set<std::string> edges;
	std::map<std::string, std::string> edge_case;
	std::vector<std::string> samples;
	long inconclusive = 0;
	Verdict last_fail;
	ref::Bytes fail_data, fail_sched;
	bool failed = false;

	auto t0 = std::chrono::steady_clock::now();
	std::string params = "seed=" + seed + " max_success=" + std::to_string(cases) +
	                     " max_size=" + std::to_string(max_size) + " max_discard_ratio=50 noshrink=" +
	                     (opt.count("noshrink") ? "1" : "0");
	setenv("RC_PARAMS", params.c_str(), 1);

	const unsigned dscale = p->data_scale, sscale = p->sched_scale;
	const long max_backstops = opt.count("max-backstops") ? atol(opt["max-backstops"].c_str()) : 4;
	bool stop_early = false;
	bool ok = rc::check(std::string("property ") + p->id, [&]() {
		// byte strings whose length grows with the size parameter; byte values are uniform at
		// every size (resize pins the element generator)
		auto bytegen = rc::gen::resize(100, rc::gen::inRange<int>(0, 256));
		auto vecgen = [&](unsigned scale) {
			return rc::gen::withSize([=](int size) {
				int mx = (int) ((long) scale * (size + 1) / 100) + 1;
				return rc::gen::mapcat(rc::gen::resize(100, rc::gen::inRange<int>(0, mx + 1)), [=](int n) {
					return rc::gen::container<std::vector<int>>((std::size_t) n, bytegen);
				});
			});
		};
		if (stop_early) return;
		std::vector<int> di = *vecgen(dscale);
		std::vector<int> si = *vecgen(sscale ? sscale : 1);
		ref::Bytes data(di.begin(), di.end()), sched(si.begin(), si.end());
		if (!sscale) sched.clear();
		if (failed) {
			// shrinking phase: bounded effort (flaky or huge cases must not run for hours)
			if (++shrink_runs > max_shrinks) return;
			Verdict sv = run_case_forked(*p, data, sched, excluded);
			if (!sv.ok && sv.signature != "wallclock-backstop") {
				last_fail = sv;
				fail_data = data;
				fail_sched = sched;
			}
			RC_ASSERT(sv.ok || sv.signature == "wallclock-backstop");
			return;
		}
		Verdict v = run_case_forked(*p, data, sched, excluded);
		evals++;
		// a case that hits the wall-clock backstop is inconclusive, never a violation; after a few of them the worker stops
		// generating (a tree on which every case hangs would otherwise cost cases x 120 s)
		if (v.signature == "wallclock-backstop") { inconclusive++; if (inconclusive >= max_backstops) stop_early = true; return; }
		for (auto &t : v.tags) tagc[t]++;
		for (auto &kv : v.counters) counters[kv.first] += kv.second;
		for (auto &e : v.lock_edges)
			if (edges.insert(e).second) edge_case[e] = hex(data) + "|" + hex(sched);     // first case that nested the locks this way
		distinct_all.insert(v.hash);
		if (v.nontrivial) {
			nontriv++;
			if (!corpus.empty() && corpus_written < 300 && distinct_nt.count(v.hash) == 0) {
				// seed corpus for the libFuzzer driver: the raw case bytes (schedule bytes appended as the last eighth)
				std::ofstream cf(corpus + "/seed-" + seed + "-" + std::to_string(corpus_written++));
				cf.write((const char *) data.data(), (std::streamsize) data.size());
			}
			if (distinct_nt.insert(v.hash).second && samples.size() < 5 &&
			    (distinct_nt.size() % 7 == 1 || samples.size() < 2))
				samples.push_back(v.desc);
		}
		if (!v.ok) {
			failed = true;
			last_fail = v;
			fail_data = data;
			fail_sched = sched;
			save_case(rdir + "/" + p->id + "-seed" + seed + "-last.case", p->id, data, sched, v);
		}
		RC_ASSERT(v.ok);
	});
	double wall = std::chrono::duration<double>(std::chrono::steady_clock::now() - t0).count();

	std::string replay_path;
	if (!ok && failed) {
		// confirm the shrunk case 3x (determinism) before it is reported
		int again = 0;
		for (int i = 0; i < 3; i++) {
			Verdict v = run_case_forked(*p, fail_data, fail_sched, excluded);
			if (!v.ok && v.signature != "wallclock-backstop") again++;
		}
		replay_path = rdir + "/" + p->id + "-seed" + seed + "-" + std::to_string(fnv(hex(fail_data) + hex(fail_sched)) % 100000000ULL) + ".case";
		save_case(replay_path, p->id, fail_data, fail_sched, last_fail);
		unlink((rdir + "/" + p->id + "-seed" + seed + "-last.case").c_str());
		if (again < 3) last_fail.msg = "(NOT REPRODUCIBLE: " + std::to_string(again) + "/3 replays failed) " + last_fail.msg;
	}

	if (!out.empty()) {
		std::ofstream f(out);
		f << "{\n \"property\": \"" << p->id << "\",\n \"seed\": " << atol(seed.c_str()) << ",\n";
		f << " \"evaluations\": " << evals << ",\n \"nontrivial\": " << nontriv << ",\n";
		f << " \"distinct_nontrivial\": " << distinct_nt.size() << ",\n \"distinct\": " << distinct_all.size() << ",\n";
		f << " \"shrink_runs\": " << shrink_runs << ",\n \"inconclusive\": " << inconclusive << ",\n \"wall_s\": " << wall << ",\n";
		f << " \"rule\": \"" << json_escape(p->rule) << "\",\n";
		f << " \"nt_hashes\": [";
		{ bool first = true; for (auto h : distinct_nt) { f << (first ? "" : ",") << "\"" << h << "\""; first = false; } }
		f << "],\n \"tags\": {";
		{ bool first = true; for (auto &kv : tagc) { f << (first ? "" : ",") << "\"" << json_escape(kv.first) << "\": " << kv.second; first = false; } }
		f << "},\n \"counters\": {";
		{ bool first = true; for (auto &kv : counters) { f << (first ? "" : ",") << "\"" << json_escape(kv.first) << "\": " << kv.second; first = false; } }
		f << "},\n \"lock_edges\": [";
		{ bool first = true; for (auto &e : edges) { f << (first ? "" : ",") << "\"" << json_escape(e) << "\""; first = false; } }
		f << "],\n \"edge_cases\": {";
		{ bool first = true; for (auto &kv : edge_case) { f << (first ? "" : ",") << "\"" << json_escape(kv.first) << "\": \"" << kv.second << "\""; first = false; } }
		f << "},\n \"samples\": [";
		{ bool first = true; for (auto &s : samples) { f << (first ? "" : ",") << "\"" << json_escape(s) << "\""; first = false; } }
		f << "],\n \"failed\": " << ((!ok && failed) ? "true" : "false") << ",\n";
		f << " \"rc_ok\": " << (ok ? "true" : "false") << ",\n";
		f << " \"failure\": {\"replay\": \"" << json_escape(replay_path) << "\", \"signature\": \""
		  << json_escape(last_fail.signature) << "\", \"msg\": \"" << json_escape(last_fail.msg)
		  << "\", \"desc\": \"" << json_escape(last_fail.desc) << "\"}\n}\n";
	}
	if (!ok && failed) {
		printf("FAIL property=%s replay=%s signature=%s\n%s\n", p->id, replay_path.c_str(),
		       last_fail.signature.c_str(), last_fail.msg.c_str());
		return 1;
	}
	if (!ok) { printf("RAPIDCHECK-GAVE-UP property=%s\n", p->id); return 4; }
	printf("PASS property=%s cases=%ld nontrivial=%ld distinct_nontrivial=%zu wall=%.1fs\n", p->id, evals,
	       nontriv, distinct_nt.size(), wall);
	return 0;
}
