// Normal-mode session helper: generated configuration + simulated bus + library start.
#pragma once
#include "harness/vf.hpp"
#include "harness/bus.hpp"
#include "harness/config.hpp"
#include "harness/bidib_cxx.h"
#include <set>

namespace vf {

struct NormalOpts {
	cfg::GenOpts gen;
	int present_mode = 0;      // 0 generated subset, 1 all boards present, 2 no configured board present
	int max_unknown = 2;
	bool allow_table_change = false;
	bool allow_drop = false;          // a node may leave the bus at the table change
	bool allow_feature_mismatch = false;
	bool allow_capacity = false;
	bool deep_tree = false;            // prefer chains of interfaces down to the third address level
	unsigned flush_interval = 0;
};

struct Normal {
	Session s;
	Bus bus;
	cfg::Config c;
	std::vector<bool> present;

	// draws configuration, tree and bus knobs (no library call yet)
	void prepare(DP &dp, const ref::Bytes &sched, const NormalOpts &o) {
		s.world(sched);
		c = cfg::generate(dp, o.gen);
		present.assign(c.boards.size(), false);
		for (size_t i = 0; i < c.boards.size(); i++) {
			if (o.present_mode == 1) present[i] = true;
			else if (o.present_mode == 2) present[i] = false;
			else present[i] = !dp.chance(70);
		}
		if (o.gen.need_track_output && !c.boards.empty()) present[0] = true;
		bus.attach(s);
		bus.build_tree(dp, c, present, dp.range(0, o.max_unknown), 3, o.deep_tree);
		if (o.allow_table_change && dp.chance(50)) {
			bus.table_change_at = dp.range(0, (int) bus.nodes[0].children.size());
			bus.table_changes_left = dp.range(1, 2);
			// now and then it is the table of a nested interface that changes while it is read (the restart still begins at the root)
			std::vector<int> hubs;
			for (size_t i = 1; i < bus.nodes.size(); i++) if (!bus.nodes[i].children.empty()) hubs.push_back((int) i);
			if (!hubs.empty() && dp.chance(110)) {
				bus.table_change_node = hubs[dp.pick((unsigned) hubs.size())];
				bus.table_change_at = dp.range(0, (int) bus.nodes[(size_t) bus.table_change_node].children.size());
			}
			if (bus.table_change_node == 0 && o.allow_drop && dp.chance(128)) {
				// a leaf directly below the root disappears when the table changes
				std::vector<int> leaves;
				for (int ch : bus.nodes[0].children)
					if (bus.nodes[(size_t) ch].children.empty()) leaves.push_back(ch);
				if (!leaves.empty()) bus.drop_on_change = leaves[dp.pick((unsigned) leaves.size())];
			}
		}
		if (o.allow_feature_mismatch && dp.chance(50)) bus.feature_mismatch = true;
		if (o.allow_capacity && dp.chance(80)) bus.capacity = dp.u8();
	}
	int start(unsigned flush_interval = 0) {
		return s.start_normal(c.board_yaml(), c.track_yaml(), c.train_yaml(), flush_interval);
	}
	// expected connectivity: board index -> node index (or -1)
	int node_of(size_t board_index) const { return bus.node_of_board(c.boards[board_index].id); }
	bool connected(const std::string &board_id) const { return bus.node_of_board(board_id) >= 0; }
	t_bidib_node_address addr_of(const std::string &board_id) const {
		t_bidib_node_address a = {0, 0, 0};
		int i = bus.node_of_board(board_id);
		if (i < 0) return a;
		const ref::Bytes &ad = bus.nodes[(size_t) i].addr;
		if (ad.size() > 0) a.top = ad[0];
		if (ad.size() > 1) a.sub = ad[1];
		if (ad.size() > 2) a.subsub = ad[2];
		return a;
	}
};

static inline std::multiset<std::string> take_ids(t_bidib_id_list_query q) {
	std::multiset<std::string> r;
	for (size_t i = 0; i < q.length; i++) r.insert(q.ids[i] ? q.ids[i] : "(null)");
	bidib_free_id_list_query(q);
	return r;
}
static inline std::string show_ids(const std::multiset<std::string> &s) {
	std::string r = "{";
	for (auto &x : s) r += x + ",";
	return r + "}";
}

}  // namespace vf
