#include "harness/sends.hpp"
#include "harness/bidib_cxx.h"
#include "ref/msgs.hpp"
#include <cstring>
#include <cstdlib>

namespace vf {

using B = ref::Bytes;

static t_bidib_node_address na(const SendCall &c) {
	t_bidib_node_address n = {0, 0, 0};
	if (c.addr.size() > 0) n.top = c.addr[0];
	if (c.addr.size() > 1) n.sub = c.addr[1];
	if (c.addr.size() > 2) n.subsub = c.addr[2];
	return n;
}

// exact-size heap copy, so that AddressSanitizer sees any access outside the caller's buffer
struct Exact {
	uint8_t *p;
	explicit Exact(const B &b) {
		p = (uint8_t *) malloc(b.size());   // malloc(0) yields a valid 0-byte block
		if (!b.empty()) memcpy(p, b.data(), b.size());
	}
	~Exact() { free(p); }
};

static t_bidib_unique_id_mod uid7(const SendCall &c, int o) {
	t_bidib_unique_id_mod u = {c.a[o], c.a[o + 1], c.a[o + 2], c.a[o + 3], c.a[o + 4], c.a[o + 5], c.a[o + 6]};
	return u;
}

#define ENC [](const SendCall &c, B &d, bool &defined) -> bool
#define CALL [](const SendCall &c)
#define ALL(c) d.insert(d.end(), (c).a.begin(), (c).a.end())

static std::vector<SendFn> build() {
	std::vector<SendFn> t;
	auto simple0 = [&](const char *name, uint8_t type, std::function<void(const SendCall &)> call) {
		t.push_back({name, type, 0, -1, -1, {}, ENC { (void) c; (void) d; (void) defined; return true; }, call, false});
	};
	// ---------------------------------------------------------------- system
	simple0("bidib_send_sys_get_magic", M::SYS_GET_MAGIC, CALL { bidib_send_sys_get_magic(na(c), 0); });
	simple0("bidib_send_sys_get_p_version", M::SYS_GET_P_VERSION, CALL { bidib_send_sys_get_p_version(na(c), 0); });
	simple0("bidib_send_sys_enable", M::SYS_ENABLE, CALL { (void) c; bidib_send_sys_enable(0); });
	simple0("bidib_send_sys_disable", M::SYS_DISABLE, CALL { (void) c; bidib_send_sys_disable(0); });
	simple0("bidib_send_sys_get_unique_id", M::SYS_GET_UNIQUE_ID, CALL { bidib_send_sys_get_unique_id(na(c), 0); });
	simple0("bidib_send_sys_get_sw_version", M::SYS_GET_SW_VERSION, CALL { bidib_send_sys_get_sw_version(na(c), 0); });
	t.push_back({"bidib_send_sys_ping", M::SYS_PING, 1, -1, -1, {{0, 255, 0xFE, 0xFD}},
	             ENC { (void) defined; ALL(c); return true; },
	             CALL { bidib_send_sys_ping(na(c), c.a[0], 0); }, false});
	t.push_back({"bidib_send_sys_identify", M::SYS_IDENTIFY, 1, -1, -1, {{0, 1, 2, 255}},
	             ENC { (void) defined; ALL(c); return c.a[0] <= 1; },
	             CALL { bidib_send_sys_identify(na(c), c.a[0], 0); }, false});
	simple0("bidib_send_sys_get_error", M::SYS_GET_ERROR, CALL { bidib_send_sys_get_error(na(c), 0); });
	simple0("bidib_send_nodetab_getall", M::NODETAB_GETALL, CALL { bidib_send_nodetab_getall(na(c), 0); });
	simple0("bidib_send_nodetab_getnext", M::NODETAB_GETNEXT, CALL { bidib_send_nodetab_getnext(na(c), 0); });
	simple0("bidib_send_get_pkt_capacity", M::GET_PKT_CAPACITY, CALL { bidib_send_get_pkt_capacity(na(c), 0); });
	t.push_back({"bidib_send_node_changed_ack", M::NODE_CHANGED_ACK, 1, -1, -1, {{0, 255}},
	             ENC { (void) defined; ALL(c); return true; },
	             CALL { bidib_send_node_changed_ack(na(c), c.a[0], 0); }, false});
	t.push_back({"bidib_send_sys_clock", M::SYS_CLOCK, 4, -1, -1,
	             {{0, 59, 60}, {127, 128, 151, 152}, {63, 64, 70, 71}, {191, 192, 223, 224}},
	             ENC {
		             (void) defined; ALL(c);
		             return c.a[0] <= 59 && c.a[1] >= 128 && c.a[1] <= 151 && c.a[2] >= 64 && c.a[2] <= 70 &&
		                    c.a[3] >= 192 && c.a[3] <= 223;
	             },
	             CALL { bidib_send_sys_clock(na(c), c.a[0], c.a[1], c.a[2], c.a[3], 0); }, false});
	// ---------------------------------------------------------------- feature
	simple0("bidib_send_feature_getall", M::FEATURE_GETALL, CALL { bidib_send_feature_getall(na(c), 0); });
	simple0("bidib_send_feature_getnext", M::FEATURE_GETNEXT, CALL { bidib_send_feature_getnext(na(c), 0); });
	t.push_back({"bidib_send_feature_get", M::FEATURE_GET, 1, -1, -1, {{0, 255}},
	             ENC { (void) defined; ALL(c); return true; },
	             CALL { bidib_send_feature_get(na(c), c.a[0], 0); }, false});
	t.push_back({"bidib_send_feature_set", M::FEATURE_SET, 2, -1, -1, {{0, 255}, {0, 255}},
	             ENC { (void) defined; ALL(c); return true; },
	             CALL { bidib_send_feature_set(na(c), c.a[0], c.a[1], 0); }, false});
	// ---------------------------------------------------------------- user config
	t.push_back({"bidib_send_vendor_enable", M::VENDOR_ENABLE, 7, -1, -1, {},
	             ENC { (void) defined; ALL(c); return true; },
	             CALL { bidib_send_vendor_enable(na(c), uid7(c, 0), 0); }, false});
	simple0("bidib_send_vendor_disable", M::VENDOR_DISABLE, CALL { bidib_send_vendor_disable(na(c), 0); });
	// payload limits: a message must fit the 127-byte maximum at every address depth
	// (depth 3: length byte = 6 + data), i.e. data <= 121
	t.push_back({"bidib_send_vendor_set", M::VENDOR_SET, 0, 119, 119, {},
	             ENC {
		             d.push_back((uint8_t) c.p1.size());
		             d.insert(d.end(), c.p1.begin(), c.p1.end());
		             d.push_back((uint8_t) c.p2.size());
		             d.insert(d.end(), c.p2.begin(), c.p2.end());
		             defined = true;
		             return c.p1.size() + c.p2.size() + 2 <= 121;
	             },
	             CALL {
		             Exact n(c.p1), v(c.p2);
		             t_bidib_vendor_data vd = {(uint8_t) c.p1.size(), n.p, (uint8_t) c.p2.size(), v.p};
		             bidib_send_vendor_set(na(c), vd, 0);
	             }, false});
	t.push_back({"bidib_send_vendor_get", M::VENDOR_GET, 0, 120, -1, {},
	             ENC {
		             d.push_back((uint8_t) c.p1.size());
		             d.insert(d.end(), c.p1.begin(), c.p1.end());
		             defined = true;
		             return c.p1.size() + 1 <= 121;
	             },
	             CALL { Exact n(c.p1); bidib_send_vendor_get(na(c), (uint8_t) c.p1.size(), n.p, 0); }, false});
	t.push_back({"bidib_send_string_set", M::STRING_SET, 2, 118, -1, {{0, 1, 255}, {0, 255}},
	             ENC {
		             d.push_back(c.a[0]);
		             d.push_back(c.a[1]);
		             d.push_back((uint8_t) c.p1.size());
		             d.insert(d.end(), c.p1.begin(), c.p1.end());
		             defined = true;
		             return c.p1.size() + 3 <= 121;
	             },
	             CALL { Exact s(c.p1); bidib_send_string_set(na(c), c.a[0], c.a[1], (uint8_t) c.p1.size(), s.p, 0); }, false});
	t.push_back({"bidib_send_string_get", M::STRING_GET, 2, -1, -1, {{0, 1, 255}, {0, 255}},
	             ENC { (void) defined; ALL(c); return true; },
	             CALL { bidib_send_string_get(na(c), c.a[0], c.a[1], 0); }, false});
	// ---------------------------------------------------------------- firmware
	t.push_back({"bidib_send_fw_update_op_enter", M::FW_UPDATE_OP, 7, -1, -1, {},
	             ENC { (void) defined; d.push_back(0x00); ALL(c); return true; },
	             CALL { bidib_send_fw_update_op_enter(na(c), uid7(c, 0), 0); }, false});
	t.push_back({"bidib_send_fw_update_op_exit", M::FW_UPDATE_OP, 0, -1, -1, {},
	             ENC { (void) c; (void) defined; d.push_back(0x01); return true; },
	             CALL { bidib_send_fw_update_op_exit(na(c), 0); }, false});
	t.push_back({"bidib_send_fw_update_op_setdest", M::FW_UPDATE_OP, 1, -1, -1, {{0, 1, 2, 255}},
	             ENC { (void) defined; d.push_back(0x02); ALL(c); return c.a[0] <= 1; },
	             CALL { bidib_send_fw_update_op_setdest(na(c), c.a[0], 0); }, false});
	t.push_back({"bidib_send_fw_update_op_data", M::FW_UPDATE_OP, 0, 120, -1, {},
	             ENC {
		             // 'white' characters (0x20, 0x09, 0x0D, 0x0A) are not transmitted
		             d.push_back(0x03);
		             for (uint8_t b : c.p1)
			             if (b != 0x20 && b != 0x09 && b != 0x0D && b != 0x0A) d.push_back(b);
		             defined = true;
		             return c.p1.size() + 1 <= 121;
	             },
	             CALL { Exact s(c.p1); bidib_send_fw_update_op_data(na(c), (uint8_t) c.p1.size(), s.p, 0); }, false});
	t.push_back({"bidib_send_fw_update_op_done", M::FW_UPDATE_OP, 0, -1, -1, {},
	             ENC { (void) c; (void) defined; d.push_back(0x04); return true; },
	             CALL { bidib_send_fw_update_op_done(na(c), 0); }, false});
	// ---------------------------------------------------------------- occupancy
	t.push_back({"bidib_send_bm_get_range", M::BM_GET_RANGE, 2, -1, -1, {{0, 8, 7, 248, 255}, {0, 8, 128, 129, 248}},
	             ENC { (void) defined; ALL(c); return c.a[0] % 8 == 0 && c.a[1] % 8 == 0; },
	             CALL { bidib_send_bm_get_range(na(c), c.a[0], c.a[1], 0); }, false});
	t.push_back({"bidib_send_bm_mirror_multiple", M::BM_MIRROR_MULTIPLE, 2, 16, -1,
	             {{0, 8, 7, 248}, {0, 7, 8, 16, 120, 128, 129, 136, 255}},
	             ENC {
		             bool ok = c.a[0] % 8 == 0 && c.a[1] >= 8 && c.a[1] <= 128 && c.a[1] % 8 == 0;
		             d.push_back(c.a[0]);
		             d.push_back(c.a[1]);
		             size_t nb = c.a[1] / 8;
		             defined = c.p1.size() >= nb && c.a[1] % 8 == 0;
		             for (size_t i = 0; i < nb && i < c.p1.size(); i++) d.push_back(c.p1[i]);
		             return ok;
	             },
	             CALL { Exact s(c.p1); bidib_send_bm_mirror_multiple(na(c), c.a[0], c.a[1], s.p, 0); }, false});
	t.push_back({"bidib_send_bm_mirror_occ", M::BM_MIRROR_OCC, 1, -1, -1, {{0, 1, 127, 255}},
	             ENC { (void) defined; ALL(c); return true; },
	             CALL { bidib_send_bm_mirror_occ(na(c), c.a[0], 0); }, false});
	t.push_back({"bidib_send_bm_mirror_free", M::BM_MIRROR_FREE, 1, -1, -1, {{0, 1, 127, 255}},
	             ENC { (void) defined; ALL(c); return true; },
	             CALL { bidib_send_bm_mirror_free(na(c), c.a[0], 0); }, false});
	t.push_back({"bidib_send_bm_addr_get_range", M::BM_ADDR_GET_RANGE, 2, -1, -1, {{0, 1, 255}, {0, 1, 255}},
	             ENC { (void) defined; ALL(c); return c.a[0] <= c.a[1]; },
	             CALL { bidib_send_bm_addr_get_range(na(c), c.a[0], c.a[1], 0); }, false});
	simple0("bidib_send_bm_get_confidence", M::BM_GET_CONFIDENCE, CALL { bidib_send_bm_get_confidence(na(c), 0); });
	t.push_back({"bidib_send_msg_bm_mirror_position", M::BM_MIRROR_POSITION, 3, -1, -1, {{0, 1, 255}, {0, 255}, {0, 255}},
	             ENC { (void) defined; ALL(c); return true; },
	             CALL { bidib_send_msg_bm_mirror_position(na(c), c.a[0], c.a[1], c.a[2], 0); }, false});
	// ---------------------------------------------------------------- booster
	t.push_back({"bidib_send_boost_on", M::BOOST_ON, 1, -1, -1, {{0, 1, 2, 255}},
	             ENC { (void) defined; ALL(c); return c.a[0] <= 1; },
	             CALL { bidib_send_boost_on(na(c), c.a[0], 0); }, false});
	t.push_back({"bidib_send_boost_off", M::BOOST_OFF, 1, -1, -1, {{0, 1, 2, 255}},
	             ENC { (void) defined; ALL(c); return c.a[0] <= 1; },
	             CALL { bidib_send_boost_off(na(c), c.a[0], 0); }, false});
	simple0("bidib_send_boost_query", M::BOOST_QUERY, CALL { bidib_send_boost_query(na(c), 0); });
	// ---------------------------------------------------------------- accessory
	t.push_back({"bidib_send_accessory_set", M::ACCESSORY_SET, 2, -1, -1, {{0, 127, 128, 255}, {0, 127, 128, 255}},
	             ENC { (void) defined; ALL(c); return c.a[0] <= 127 && c.a[1] <= 127; },
	             CALL { bidib_send_accessory_set(na(c), c.a[0], c.a[1], 0); }, false});
	t.push_back({"bidib_send_accessory_get", M::ACCESSORY_GET, 1, -1, -1, {{0, 127, 128, 255}},
	             ENC { (void) defined; ALL(c); return c.a[0] <= 127; },
	             CALL { bidib_send_accessory_get(na(c), c.a[0], 0); }, false});
	t.push_back({"bidib_send_accessory_para_set_opmode", M::ACCESSORY_PARA_SET, 2, -1, -1, {{0, 127, 128}, {0, 127, 128, 255}},
	             ENC { (void) defined; d = {c.a[0], 251, c.a[1]}; return c.a[0] <= 127 && c.a[1] <= 127; },
	             CALL { bidib_send_accessory_para_set_opmode(na(c), c.a[0], c.a[1], 0); }, false});
	t.push_back({"bidib_send_accessory_para_set_startup", M::ACCESSORY_PARA_SET, 2, -1, -1, {{0, 127, 128}, {0, 127, 128, 253, 254, 255}},
	             ENC { (void) defined; d = {c.a[0], 252, c.a[1]}; return c.a[0] <= 127 && (c.a[1] <= 127 || c.a[1] >= 254); },
	             CALL { bidib_send_accessory_para_set_startup(na(c), c.a[0], c.a[1], 0); }, false});
	t.push_back({"bidib_send_accessory_para_set_macromap", M::ACCESSORY_PARA_SET, 1, 16, -1, {{0, 127, 128}},
	             ENC {
		             d = {c.a[0], 253};
		             d.insert(d.end(), c.p1.begin(), c.p1.end());
		             defined = true;
		             return c.a[0] <= 127 && c.p1.size() >= 1 && c.p1.size() <= 16 && c.p1.back() == 0xFF;
	             },
	             CALL { Exact s(c.p1); bidib_send_accessory_para_set_macromap(na(c), c.a[0], (uint8_t) c.p1.size(), s.p, 0); }, false});
	t.push_back({"bidib_send_accessory_para_set_switch_time", M::ACCESSORY_PARA_SET, 2, -1, -1, {{0, 127, 128}, {0, 255}},
	             ENC { (void) defined; d = {c.a[0], 254, c.a[1]}; return c.a[0] <= 127; },
	             CALL { bidib_send_accessory_para_set_switch_time(na(c), c.a[0], c.a[1], 0); }, false});
	t.push_back({"bidib_send_accessory_para_get", M::ACCESSORY_PARA_GET, 2, -1, -1, {{0, 127, 128}, {0, 250, 251, 255}},
	             ENC { (void) defined; ALL(c); return c.a[0] <= 127 && c.a[1] >= 251; },
	             CALL { bidib_send_accessory_para_get(na(c), c.a[0], c.a[1], 0); }, false});
	// ---------------------------------------------------------------- port config
	t.push_back({"bidib_send_lc_output", M::LC_OUTPUT, 3, -1, -1, {},
	             ENC { (void) defined; ALL(c); return true; },
	             CALL { bidib_send_lc_output(na(c), c.a[0], c.a[1], c.a[2], 0); }, false});
	t.push_back({"bidib_send_lc_port_query", M::LC_PORT_QUERY, 2, -1, -1, {},
	             ENC { (void) defined; ALL(c); return true; },
	             CALL { bidib_send_lc_port_query(na(c), c.a[0], c.a[1], 0); }, false});
	t.push_back({"bidib_send_lc_port_query_all", M::LC_PORT_QUERY_ALL, 6, -1, -1, {},
	             ENC { (void) defined; ALL(c); return true; },
	             CALL {
		             t_bidib_port_query_params q = {c.a[0], c.a[1], {c.a[2], c.a[3], c.a[4], c.a[5]}};
		             bidib_send_lc_port_query_all(na(c), q, 0);
	             }, false});
	t.push_back({"bidib_send_lc_configx_set", M::LC_CONFIGX_SET, 3, 16, -1, {{}, {}, {0, 1, 8, 9, 255}},
	             ENC {
		             // scalars: port0, port1, pairs_num; p1: 2*pairs_num bytes (key,value pairs)
		             d = {c.a[0], c.a[1]};
		             size_t nb = (size_t) c.a[2] * 2;
		             defined = c.p1.size() >= nb;
		             for (size_t i = 0; i < nb && i < c.p1.size(); i++) d.push_back(c.p1[i]);
		             return c.a[2] >= 1 && c.a[2] <= 8;
	             },
	             CALL { Exact s(c.p1); bidib_send_lc_configx_set(na(c), c.a[0], c.a[1], c.a[2], s.p, 0); }, false});
	t.push_back({"bidib_send_lc_configx_get", M::LC_CONFIGX_GET, 2, -1, -1, {},
	             ENC { (void) defined; ALL(c); return true; },
	             CALL { bidib_send_lc_configx_get(na(c), c.a[0], c.a[1], 0); }, false});
	t.push_back({"bidib_send_lc_configx_get_all", M::LC_CONFIGX_GET_ALL, 6, -1, -1, {},
	             ENC { (void) defined; ALL(c); return true; },
	             CALL {
		             t_bidib_port_query_address_range r = {c.a[2], c.a[3], c.a[4], c.a[5]};
		             bidib_send_lc_configx_get_all(na(c), c.a[0], c.a[1], r, 0);
	             }, false});
	t.push_back({"bidib_send_lc_macro_handle", M::LC_MACRO_HANDLE, 2, -1, -1, {{}, {0, 1, 2, 251, 252, 255}},
	             ENC { (void) defined; ALL(c); return c.a[1] <= 1 || c.a[1] >= 252; },
	             CALL { bidib_send_lc_macro_handle(na(c), c.a[0], c.a[1], 0); }, false});
	t.push_back({"bidib_send_lc_macro_set", M::LC_MACRO_SET, 6, -1, -1, {},
	             ENC { (void) defined; ALL(c); return true; },
	             CALL { t_bidib_macro_params p = {c.a[0], c.a[1], c.a[2], c.a[3], c.a[4], c.a[5]}; bidib_send_lc_macro_set(na(c), p, 0); }, false});
	t.push_back({"bidib_send_lc_macro_get", M::LC_MACRO_GET, 2, -1, -1, {},
	             ENC { (void) defined; ALL(c); return true; },
	             CALL { bidib_send_lc_macro_get(na(c), c.a[0], c.a[1], 0); }, false});
	t.push_back({"bidib_send_lc_macro_para_set", M::LC_MACRO_PARA_SET, 6, -1, -1, {},
	             ENC { (void) defined; ALL(c); return true; },
	             CALL { t_bidib_macro_params p = {c.a[0], c.a[1], c.a[2], c.a[3], c.a[4], c.a[5]}; bidib_send_lc_macro_para_set(na(c), p, 0); }, false});
	t.push_back({"bidib_send_lc_macro_para_get", M::LC_MACRO_PARA_GET, 2, -1, -1, {},
	             ENC { (void) defined; ALL(c); return true; },
	             CALL { bidib_send_lc_macro_para_get(na(c), c.a[0], c.a[1], 0); }, false});
	// ---------------------------------------------------------------- track / command station
	t.push_back({"bidib_send_cs_allocate", M::CS_ALLOCATE, 0, -1, -1, {},
	             ENC { (void) c; (void) defined; d.push_back(0x00); return true; },
	             CALL { bidib_send_cs_allocate(na(c), 0); }, false});
	t.push_back({"bidib_send_cs_set_state", M::CS_SET_STATE, 1, -1, -1, {{0, 4, 5, 7, 8, 9, 10, 0x0C, 0x0D, 0x0E, 0xFE, 0xFF}},
	             ENC {
		             (void) defined; ALL(c);
		             uint8_t s = c.a[0];
		             return s <= 4 || s == 8 || s == 9 || s == 0x0D || s == 0xFF;
	             },
	             CALL { bidib_send_cs_set_state(na(c), c.a[0], 0); }, false});
	t.push_back({"bidib_send_cs_drive", M::CS_DRIVE, 9, -1, -1,
	             {{}, {}, {0, 1, 2, 3, 4, 255}, {0, 63, 64, 255}, {}, {0, 31, 32, 255}, {}, {}, {}},
	             ENC {
		             // addrl, addrh, format, active, speed, f1..f4
		             (void) defined; ALL(c);
		             return (c.a[2] == 0 || c.a[2] == 2 || c.a[2] == 3) && c.a[3] <= 63 && c.a[5] <= 31;
	             },
	             CALL {
		             t_bidib_cs_drive_mod p;
		             memset(&p, 0, sizeof p);
		             p.dcc_address.addrl = c.a[0]; p.dcc_address.addrh = c.a[1];
		             p.dcc_format = c.a[2]; p.active = c.a[3]; p.speed = c.a[4];
		             p.function1 = c.a[5]; p.function2 = c.a[6]; p.function3 = c.a[7]; p.function4 = c.a[8];
		             bidib_send_cs_drive(na(c), p, 0);
	             }, true});
	t.push_back({"bidib_send_cs_accessory", M::CS_ACCESSORY, 4, -1, -1, {},
	             ENC { (void) defined; ALL(c); return true; },
	             CALL {
		             t_bidib_cs_accessory_mod p;
		             memset(&p, 0, sizeof p);
		             p.dcc_address.addrl = c.a[0]; p.dcc_address.addrh = c.a[1]; p.data = c.a[2]; p.time = c.a[3];
		             bidib_send_cs_accessory(na(c), p, 0);
	             }, true});
	t.push_back({"bidib_send_cs_pom", M::CS_POM, 13, -1, -1,
	             {{}, {}, {}, {}, {}, {0, 3, 4, 0x43, 0x47, 0x80, 0x83, 0x84, 0x87, 0x8B, 0x8F, 0x90, 255}, {}, {}, {}, {}, {}, {}, {}},
	             ENC {
		             (void) defined; ALL(c);
		             uint8_t o = c.a[5];
		             return o <= 3 || o == 0x43 || o == 0x47 || (o >= 0x80 && o <= 0x83) || o == 0x87 || o == 0x8B || o == 0x8F;
	             },
	             CALL {
		             t_bidib_cs_pom_mod p;
		             memset(&p, 0, sizeof p);
		             p.dcc_address.addrl = c.a[0]; p.dcc_address.addrh = c.a[1]; p.addrxl = c.a[2]; p.addrxh = c.a[3];
		             p.mid = c.a[4]; p.opcode = c.a[5]; p.cv_addrl = c.a[6]; p.cv_addrh = c.a[7]; p.cv_addrx = c.a[8];
		             p.data0 = c.a[9]; p.data1 = c.a[10]; p.data2 = c.a[11]; p.data3 = c.a[12];
		             bidib_send_cs_pom(na(c), p, 0);
	             }, false});
	t.push_back({"bidib_send_cs_bin_state", M::CS_BIN_STATE, 5, -1, -1, {{}, {}, {}, {}, {0, 1, 2, 255}},
	             ENC { (void) defined; ALL(c); return c.a[4] <= 1; },
	             CALL {
		             t_bidib_bin_state_mod p;
		             memset(&p, 0, sizeof p);
		             p.dcc_address.addrl = c.a[0]; p.dcc_address.addrh = c.a[1]; p.bin_numl = c.a[2]; p.bin_numh = c.a[3]; p.data = c.a[4];
		             bidib_send_cs_bin_state(na(c), p, 0);
	             }, false});
	t.push_back({"bidib_send_cs_prog", M::CS_PROG, 4, -1, -1, {{0, 4, 5, 255}, {}, {}, {}},
	             ENC { (void) defined; ALL(c); return c.a[0] <= 4; },
	             CALL { t_bidib_cs_prog_mod p = {c.a[0], c.a[1], c.a[2], c.a[3]}; bidib_send_cs_prog(na(c), p, 0); }, false});
	t.push_back({"bidib_send_cs_rcplus_get_id", M::CS_RCPLUS, 0, -1, -1, {},
	             ENC { (void) c; (void) defined; d.push_back(2); return true; },
	             CALL { bidib_send_cs_rcplus_get_id(na(c), 0); }, false});
	t.push_back({"bidib_send_cs_rcplus_set_id", M::CS_RCPLUS, 6, -1, -1, {},
	             ENC { (void) defined; d.push_back(3); ALL(c); return true; },
	             CALL {
		             t_rcplus_tid tid;
		             memset(&tid, 0, sizeof tid);
		             tid.cid.mun_0 = c.a[0]; tid.cid.mun_1 = c.a[1]; tid.cid.mun_2 = c.a[2]; tid.cid.mun_3 = c.a[3];
		             tid.cid.mid = c.a[4]; tid.sid = c.a[5];
		             bidib_send_cs_rcplus_set_id(na(c), tid, 0);
	             }, false});
	t.push_back({"bidib_send_cs_rcplus_ping", M::CS_RCPLUS, 1, -1, -1, {{0, 255}},
	             ENC { (void) defined; d.push_back(1); ALL(c); return true; },
	             CALL { bidib_send_cs_rcplus_ping(na(c), c.a[0], 0); }, false});
	t.push_back({"bidib_send_cs_rcplus_ping_once_p0", M::CS_RCPLUS, 0, -1, -1, {},
	             ENC { (void) c; (void) defined; d.push_back(4); return true; },
	             CALL { bidib_send_cs_rcplus_ping_once_p0(na(c), 0); }, false});
	t.push_back({"bidib_send_cs_rcplus_ping_once_p1", M::CS_RCPLUS, 0, -1, -1, {},
	             ENC { (void) c; (void) defined; d.push_back(5); return true; },
	             CALL { bidib_send_cs_rcplus_ping_once_p1(na(c), 0); }, false});
	t.push_back({"bidib_send_cs_rcplus_bind", M::CS_RCPLUS, 7, -1, -1, {},
	             ENC { (void) defined; d.push_back(0); ALL(c); return true; },
	             CALL {
		             t_rcplus_unique_id u;
		             memset(&u, 0, sizeof u);
		             u.mun_0 = c.a[0]; u.mun_1 = c.a[1]; u.mun_2 = c.a[2]; u.mun_3 = c.a[3]; u.mid = c.a[4];
		             bidib_send_cs_rcplus_bind(na(c), u, c.a[5], c.a[6], 0);
	             }, false});
	t.push_back({"bidib_send_cs_rcplus_find_p0", M::CS_RCPLUS, 5, -1, -1, {},
	             ENC { (void) defined; d.push_back(6); ALL(c); return true; },
	             CALL {
		             t_rcplus_unique_id u;
		             memset(&u, 0, sizeof u);
		             u.mun_0 = c.a[0]; u.mun_1 = c.a[1]; u.mun_2 = c.a[2]; u.mun_3 = c.a[3]; u.mid = c.a[4];
		             bidib_send_cs_rcplus_find_p0(na(c), u, 0);
	             }, false});
	t.push_back({"bidib_send_cs_rcplus_find_p1", M::CS_RCPLUS, 5, -1, -1, {},
	             ENC { (void) defined; d.push_back(7); ALL(c); return true; },
	             CALL {
		             t_rcplus_unique_id u;
		             memset(&u, 0, sizeof u);
		             u.mun_0 = c.a[0]; u.mun_1 = c.a[1]; u.mun_2 = c.a[2]; u.mun_3 = c.a[3]; u.mid = c.a[4];
		             bidib_send_cs_rcplus_find_p1(na(c), u, 0);
	             }, false});
	return t;
}

const std::vector<SendFn> &send_table() {
	static std::vector<SendFn> t = build();
	return t;
}

static bool no_addr(const SendFn &f) {
	return !strcmp(f.name, "bidib_send_sys_enable") || !strcmp(f.name, "bidib_send_sys_disable");
}

ref::Bytes draw_addr(DP &dp, int max_depth, bool spicy) {
	ref::Bytes a;
	int depth = dp.range(0, max_depth);
	for (int i = 0; i < depth; i++) {
		uint8_t b = spicy ? dp.spicy() : (uint8_t) dp.range(1, 9);
		if (b == 0) b = 1;
		a.push_back(b);
	}
	return a;
}

SendCall draw_send(DP &dp, bool in_range_only, int only_fn) {
	const auto &t = send_table();
	SendCall c;
	c.fn = only_fn >= 0 ? only_fn : (int) dp.pick((unsigned) t.size());
	const SendFn &f = t[(size_t) c.fn];
	if (!no_addr(f)) c.addr = draw_addr(dp);
	for (int attempt = 0; attempt < 12; attempt++) {
		c.a.clear();
		c.p1.clear();
		c.p2.clear();
		for (int i = 0; i < f.nscalars; i++) {
			uint8_t v;
			const std::vector<int> *bd = (size_t) i < f.bounds.size() ? &f.bounds[(size_t) i] : nullptr;
			if (bd && !bd->empty() && dp.chance(140)) v = (uint8_t) (*bd)[dp.pick((unsigned) bd->size())];
			else v = dp.spicy();
			c.a.push_back(v);
		}
		if (f.p1max >= 0) {
			// lengths: 0, small, maximum, maximum+1, beyond
			int len;
			int p2len = 0;
			switch (dp.weighted({2, 6, 4, 3, 1})) {
			case 0: len = 0; break;
			case 1: len = dp.range(1, f.p1max < 12 ? f.p1max : 12); break;
			case 2: len = f.p1max; break;
			case 3: len = f.p1max + 1; break;
			default: len = dp.range(0, 255); break;
			}
			if (f.p2max >= 0) {
				// two buffers sharing one limit (vendor_set): split the total
				int tot = len;
				len = dp.range(0, tot);
				p2len = tot - len;
				// both buffers large: sums beyond 255 (8-bit length arithmetic must not wrap into the accepted range)
				if (dp.chance(40)) { len = dp.range(100, 255); p2len = dp.range(100, 255); }
			}
			if (!strcmp(f.name, "bidib_send_bm_mirror_multiple")) {
				len = (c.a[1] + 7) / 8;          // the caller's bitmap has size/8 bytes
			} else if (!strcmp(f.name, "bidib_send_lc_configx_set")) {
				len = 2 * c.a[2];                // pairs_num key/value pairs
				if (len > 64) len = 64;
			}
			c.p1 = dp.bytes((size_t) len, true);
			c.p2 = dp.bytes((size_t) p2len, true);
			if (!strcmp(f.name, "bidib_send_accessory_para_set_macromap") && !c.p1.empty() && dp.chance(200))
				c.p1.back() = 0xFF;
		}
		if (!in_range_only) break;
		ref::Bytes d;
		bool defined = true;
		if (f.enc(c, d, defined)) break;
		// construct an in-range call instead of rejecting: fall back to the simplest values
		if (attempt >= 2) {
			for (int i = 0; i < f.nscalars; i++) {
				const std::vector<int> *bd = (size_t) i < f.bounds.size() ? &f.bounds[(size_t) i] : nullptr;
				c.a[(size_t) i] = bd && !bd->empty() ? (uint8_t) (*bd)[0] : 0;
			}
			if (!strcmp(f.name, "bidib_send_sys_clock")) c.a = {0, 128, 64, 192};
			if (!strcmp(f.name, "bidib_send_bm_mirror_multiple")) { c.a = {0, 8}; c.p1 = {0x55}; }
			if (!strcmp(f.name, "bidib_send_accessory_para_get")) c.a = {0, 251};
			if (!strcmp(f.name, "bidib_send_accessory_para_set_macromap")) c.p1 = {0xFF};
			if (!strcmp(f.name, "bidib_send_lc_configx_set")) { c.a[2] = 1; c.p1 = {1, 2}; }
			if (f.p1max >= 0 && strcmp(f.name, "bidib_send_bm_mirror_multiple") &&
			    strcmp(f.name, "bidib_send_accessory_para_set_macromap") && strcmp(f.name, "bidib_send_lc_configx_set")) {
				if ((int) c.p1.size() > f.p1max / 2) c.p1.resize((size_t) (f.p1max / 2));
				if ((int) c.p2.size() > f.p1max / 2) c.p2.resize((size_t) (f.p1max / 2));
			}
			ref::Bytes d2;
			bool def2 = true;
			if (f.enc(c, d2, def2)) break;
		}
	}
	return c;
}

std::string SendCall::text() const {
	const SendFn &f = send_table()[(size_t) fn];
	std::string s = std::string(f.name) + "(node=";
	for (size_t i = 0; i < addr.size(); i++) s += (i ? "." : "") + std::to_string(addr[i]);
	if (addr.empty()) s += "0";
	for (uint8_t v : a) s += ", " + std::to_string(v);
	if (f.p1max >= 0) s += ", buf[" + std::to_string(p1.size()) + "]=" + hex(p1);
	if (f.p2max >= 0) s += ", buf2[" + std::to_string(p2.size()) + "]=" + hex(p2);
	return s + ")";
}

ref::Msg expected_msg(const SendCall &c, bool *in_range, bool *defined) {
	const SendFn &f = send_table()[(size_t) c.fn];
	ref::Msg m;
	m.addr = c.addr;
	m.type = f.type;
	bool def = true;
	bool ok = f.enc(c, m.data, def);
	if (in_range) *in_range = ok;
	if (defined) *defined = def;
	return m;
}

void do_send(const SendCall &c) { send_table()[(size_t) c.fn].call(c); }

}  // namespace vf
