// R-encode for the low-level layer: table of every public bidib_send_* constructor with
// (a) how to call it from generated arguments, (b) the documented parameter ranges
// (include/lowlevel/*.h and the BiDiB message layout) and (c) the expected encoding of the
// arguments, written from the header documentation / protocol message tables.
#pragma once
#include "harness/vf.hpp"
#include <functional>

namespace vf {

struct SendCall {
	int fn = 0;
	ref::Bytes addr;              // 0..3 non-zero bytes
	std::vector<uint8_t> a;       // scalar arguments in signature order (struct fields flattened)
	ref::Bytes p1, p2;            // variable-length payload buffers
	std::string text() const;
};

struct SendFn {
	const char *name;
	uint8_t type;                 // expected message type (reference constant)
	int nscalars;
	int p1max;                    // -1: no payload; else documented maximum length of p1
	int p2max;                    // -1: none
	// boundary values worth hitting for each scalar (documented range edges)
	std::vector<std::vector<int>> bounds;
	// expected data bytes for the call; returns whether all arguments are inside their
	// documented ranges. `defined` false: the encoding of this out-of-range call is not
	// well defined (only rejection, or any single well-formed message, is acceptable).
	std::function<bool(const SendCall &, ref::Bytes &data, bool &defined)> enc;
	std::function<void(const SendCall &)> call;
	bool touches_state;
};

const std::vector<SendFn> &send_table();

// draws a call; in_range_only: arguments are constructed inside the documented ranges
SendCall draw_send(DP &dp, bool in_range_only, int only_fn = -1);
// draws a node address of depth 0..max_depth
ref::Bytes draw_addr(DP &dp, int max_depth = 3, bool spicy = true);

ref::Msg expected_msg(const SendCall &c, bool *in_range, bool *defined);
void do_send(const SendCall &c);

}  // namespace vf
