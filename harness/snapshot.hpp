// Canonical text rendering of the observable track state (bidib_get_state), field by field.
#pragma once
#include "harness/bidib_cxx.h"
#include <string>
#include <sstream>

namespace vf {

static inline std::string s_or(const char *p) { return p ? p : "(null)"; }

static inline void render_board_acc(std::ostringstream &o, const char *kind, const t_bidib_board_accessory_state &a) {
	o << kind << " " << s_or(a.id) << " state_id=" << s_or(a.data.state_id) << " value=" << (int) a.data.state_value
	  << " exec=" << (int) a.data.execution_state << " wait=" << (int) a.data.wait_details << "\n";
}
static inline void render_dcc_acc(std::ostringstream &o, const char *kind, const t_bidib_dcc_accessory_state &a) {
	o << kind << " " << s_or(a.id) << " state_id=" << s_or(a.data.state_id) << " value=" << (int) a.data.state_value
	  << " coil=" << (int) a.data.coil_on << " timing=" << (int) a.data.output_controls_timing << " ack=" << (int) a.data.ack
	  << " unit=" << (int) a.data.time_unit << " time=" << (int) a.data.switch_time << "\n";
}
static inline void render_segment(std::ostringstream &o, const char *id, const t_bidib_segment_state_data &d) {
	o << "segment " << s_or(id) << " occ=" << (int) d.occupied << " conf=" << (int) d.confidence.conf_void << (int) d.confidence.freeze
	  << (int) d.confidence.nosignal << " pc=" << (int) d.power_consumption.known;
	if (d.power_consumption.known) o << "/" << (int) d.power_consumption.overcurrent;
	if (d.power_consumption.known && !d.power_consumption.overcurrent) o << "/" << d.power_consumption.current;
	o << " addrs=";
	for (size_t i = 0; i < d.dcc_address_cnt; i++)
		o << (int) d.dcc_addresses[i].addrh << ":" << (int) d.dcc_addresses[i].addrl << "t" << (int) d.dcc_addresses[i].type << ",";
	o << "\n";
}
static inline void render_train(std::ostringstream &o, const char *id, const t_bidib_train_state_data &d) {
	o << "train " << s_or(id) << " on_track=" << (int) d.on_track;
	if (d.on_track) o << " orient=" << (int) d.orientation;
	o << " step=" << d.set_speed_step << " fwd=" << (int) d.set_is_forwards << " ack=" << (int) d.ack << " kmh=" << d.detected_kmh_speed << " fn=";
	for (size_t i = 0; i < d.peripheral_cnt; i++) o << s_or(d.peripherals[i].id) << ":" << (int) d.peripherals[i].state << ",";
	const t_bidib_train_decoder_state &k = d.decoder_state;
	o << " dec=" << (int) k.signal_quality_known;
	if (k.signal_quality_known) o << "/" << (int) k.signal_quality;
	o << " " << (int) k.temp_known;
	if (k.temp_known) o << "/" << (int) k.temp_celsius;
	o << " " << (int) k.energy_storage_known;
	if (k.energy_storage_known) o << "/" << (int) k.energy_storage;
	o << " " << (int) k.container2_storage_known;
	if (k.container2_storage_known) o << "/" << (int) k.container2_storage;
	o << " " << (int) k.container3_storage_known;
	if (k.container3_storage_known) o << "/" << (int) k.container3_storage;
	o << "\n";
}
static inline void render_booster(std::ostringstream &o, const char *id, const t_bidib_booster_state_data &d, bool with_temp_known) {
	o << "booster " << s_or(id) << " power=" << (int) d.power_state << " simple=" << (int) d.power_state_simple << " pc=" << (int) d.power_consumption.known;
	if (d.power_consumption.known) o << "/" << (int) d.power_consumption.overcurrent;
	if (d.power_consumption.known && !d.power_consumption.overcurrent) o << "/" << d.power_consumption.current;
	o << " volt=" << (int) d.voltage_known;
	if (d.voltage_known) o << "/" << (int) d.voltage;
	if (with_temp_known) {
		o << " temp=" << (int) d.temp_known;
		if (d.temp_known) o << "/" << (int) d.temp_celsius;
	}
	o << "\n";
}

// with_temp_known: the snapshot's booster temp_known flag is only meaningful if the library
// initialises it (C17 checks that); other properties leave it out of the comparison.
static inline std::string snapshot_text(bool with_temp_known = true) {
	t_bidib_track_state st = bidib_get_state();
	std::ostringstream o;
	for (size_t i = 0; i < st.points_board_count; i++) render_board_acc(o, "point", st.points_board[i]);
	for (size_t i = 0; i < st.points_dcc_count; i++) render_dcc_acc(o, "dccpoint", st.points_dcc[i]);
	for (size_t i = 0; i < st.signals_board_count; i++) render_board_acc(o, "signal", st.signals_board[i]);
	for (size_t i = 0; i < st.signals_dcc_count; i++) render_dcc_acc(o, "dccsignal", st.signals_dcc[i]);
	for (size_t i = 0; i < st.peripherals_count; i++)
		o << "peripheral " << s_or(st.peripherals[i].id) << " state_id=" << s_or(st.peripherals[i].data.state_id) << " value=" << (int) st.peripherals[i].data.state_value
		  << " unit=" << (int) st.peripherals[i].data.time_unit << " wait=" << (int) st.peripherals[i].data.wait << "\n";
	for (size_t i = 0; i < st.segments_count; i++) render_segment(o, st.segments[i].id, st.segments[i].data);
	for (size_t i = 0; i < st.reversers_count; i++)
		o << "reverser " << s_or(st.reversers[i].id) << " state_id=" << s_or(st.reversers[i].data.state_id) << " value=" << (int) st.reversers[i].data.state_value << "\n";
	for (size_t i = 0; i < st.trains_count; i++) render_train(o, st.trains[i].id, st.trains[i].data);
	for (size_t i = 0; i < st.booster_count; i++) render_booster(o, st.booster[i].id, st.booster[i].data, with_temp_known);
	for (size_t i = 0; i < st.track_outputs_count; i++) o << "output " << s_or(st.track_outputs[i].id) << " cs=" << (int) st.track_outputs[i].cs_state << "\n";
	bidib_free_track_state(st);
	return o.str();
}

}  // namespace vf
