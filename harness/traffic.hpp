// Well-formed uplink traffic: for every uplink message type a payload that satisfies the layout the
// BiDiB message tables prescribe (minimum length, inner length fields consistent, enumerated
// fields inside their defined value sets). Written from the protocol tables, not from the library's
// parser. Used as baseline traffic (C06, C12 seeds) - adversarial payloads are built elsewhere.
#pragma once
#include "harness/dp.hpp"
#include "ref/codec.hpp"
#include "ref/msgs.hpp"
#include <vector>

namespace vf {
namespace traffic {

// defined value sets (bidib.org tables)
static const uint8_t CS_STATES[] = {0x00, 0x01, 0x02, 0x03, 0x04, 0x08, 0x09, 0x0D};
static const uint8_t BOOST_STATES[] = {0x00, 0x01, 0x02, 0x03, 0x04, 0x05, 0x06, 0x80, 0x81, 0x82, 0x83, 0x84};
// only the codes whose classification nobody disputes: short circuit / overheated = error; plain on / off
// (also by local key, go request) = no error. NOPOWER, NO_DCC, ON_LIMIT, ON_HOT, ON_STOP_REQ are left out.
static const uint8_t BOOST_STATES_ERROR[] = {0x01, 0x02};
static const uint8_t BOOST_STATES_OK[] = {0x00, 0x04, 0x05, 0x80, 0x84};
static const uint8_t SYS_ERRORS[] = {0x00, 0x01, 0x02, 0x03, 0x04, 0x05, 0x10, 0x11, 0x12, 0x13, 0x14, 0x15, 0x16, 0x20, 0x21, 0x30};

struct Hints {
	bool error_variant = false;     // ACCESSORY_STATE/NOTIFY, BOOST_STAT, CS_DRIVE_EVENT: produce the error variant
	bool force_variant = false;     // error_variant is binding (otherwise drawn)
};

static inline bool has_error_variant(uint8_t t) {
	return t == M::ACCESSORY_STATE || t == M::ACCESSORY_NOTIFY || t == M::BOOST_STAT || t == M::CS_DRIVE_EVENT;
}

// returns a well-formed payload for `type`; *is_error (optional) tells which variant was produced
static inline ref::Bytes valid_payload(DP &dp, uint8_t type, Hints h = Hints(), bool *is_error = nullptr) {
	bool err = h.force_variant ? h.error_variant : dp.chance(90);
	if (is_error) *is_error = has_error_variant(type) && err;
	auto b = [&]() { return dp.spicy(); };
	auto small = [&]() { return (uint8_t) (dp.chance(200) ? dp.pick(8) : dp.u8()); };
	switch (type) {
	case M::SYS_MAGIC: return {0xFE, 0xAF};
	case M::SYS_PONG: return {b()};
	case M::SYS_P_VERSION: return {b(), b()};
	case M::SYS_UNIQUE_ID: { ref::Bytes r = dp.bytes(7, true); if (dp.chance(60)) { auto f = dp.bytes(4); r.insert(r.end(), f.begin(), f.end()); } return r; }
	case M::SYS_SW_VERSION: return dp.bytes(3 * (size_t) dp.range(1, 3), true);
	case M::SYS_IDENTIFY_STATE: return {(uint8_t) dp.pick(2)};
	case M::SYS_ERROR: {
		uint8_t e = SYS_ERRORS[dp.pick(sizeof SYS_ERRORS)];
		if (e == 0x01) { uint8_t n = (uint8_t) dp.range(0, 6); ref::Bytes r = {e, n}; for (int i = 0; i < n; i++) r.push_back((uint8_t) ('a' + dp.pick(26))); return r; }
		if (e == 0x10) return {e, (uint8_t) dp.pick(7)};
		return {e, b()};
	}
	case M::PKT_CAPACITY: return {(uint8_t) dp.range(64, 255)};
	case M::NODETAB_COUNT: return {small()};
	case M::NODETAB: { ref::Bytes r = {small(), small()}; auto u = dp.bytes(7, true); r.insert(r.end(), u.begin(), u.end()); return r; }
	case M::NODE_NA: return {small()};
	case M::NODE_LOST: case M::NODE_NEW: { ref::Bytes r = {small(), (uint8_t) dp.range(1, 255)}; auto u = dp.bytes(7, true); r.insert(r.end(), u.begin(), u.end()); return r; }
	case M::STALL: return {(uint8_t) dp.pick(2)};
	case M::FW_UPDATE_STAT: return {small(), b()};
	case M::FEATURE: return {b(), b()};
	case M::FEATURE_NA: return {b()};
	case M::FEATURE_COUNT: return {small()};
	case M::VENDOR: {
		uint8_t nl = (uint8_t) dp.range(0, 6), vl = (uint8_t) dp.range(0, 6);
		ref::Bytes r = {nl};
		for (int i = 0; i < nl; i++) r.push_back((uint8_t) ('0' + dp.pick(10)));
		r.push_back(vl);
		for (int i = 0; i < vl; i++) r.push_back((uint8_t) ('0' + dp.pick(10)));
		return r;
	}
	case M::VENDOR_ACK: return {(uint8_t) dp.pick(2)};
	case M::STRING: { uint8_t n = (uint8_t) dp.range(0, 8); ref::Bytes r = {(uint8_t) dp.pick(2), small(), n}; for (int i = 0; i < n; i++) r.push_back((uint8_t) ('a' + dp.pick(26))); return r; }
	case M::BM_OCC: { ref::Bytes r = {small()}; if (dp.chance(50)) { r.push_back(b()); r.push_back(b()); } return r; }
	case M::BM_FREE: return {small()};
	case M::BM_MULTIPLE: { uint8_t base = (uint8_t) (8 * dp.pick(4)), size = (uint8_t) (8 * dp.range(1, 16)); ref::Bytes r = {base, size}; for (int i = 0; i < size / 8; i++) r.push_back(b()); return r; }
	case M::BM_ADDRESS: { int n = dp.range(1, 4); ref::Bytes r = {small()}; for (int i = 0; i < n; i++) { r.push_back(b()); r.push_back(b()); } return r; }
	case M::BM_ACCESSORY: return {small(), b(), b()};
	case M::BM_CV: return {b(), b(), b(), b(), b()};
	case M::BM_SPEED: return {b(), b(), b(), b()};
	case M::BM_CURRENT: return {small(), b()};
	case M::BM_XPOM: { ref::Bytes r = dp.bytes(4, true); r.push_back(b()); r.push_back(b()); r.push_back(b()); r.push_back(b()); r.push_back(b()); return r; }   // == BM_BLOCK_CV code
	case M::BM_CONFIDENCE: return {(uint8_t) dp.pick(2), (uint8_t) dp.pick(2), (uint8_t) dp.pick(2)};
	case M::BM_DYN_STATE: return {small(), b(), b(), (uint8_t) dp.range(1, 5), b()};
	case M::BM_RCPLUS: return dp.bytes((size_t) dp.range(2, 8), true);
	case M::BM_POSITION: return {b(), b(), b(), b(), b()};
	case M::BOOST_STAT: return {err ? BOOST_STATES_ERROR[dp.pick(sizeof BOOST_STATES_ERROR)] : BOOST_STATES_OK[dp.pick(sizeof BOOST_STATES_OK)]};
	case M::BOOST_CURRENT: return {b()};
	case M::BOOST_DIAGNOSTIC: { int n = dp.range(1, 4); ref::Bytes r; for (int i = 0; i < n; i++) { r.push_back((uint8_t) dp.pick(3)); r.push_back(b()); } return r; }
	case M::ACCESSORY_STATE: case M::ACCESSORY_NOTIFY: {
		uint8_t exec = err ? 0x80 : (uint8_t) dp.pick(4);
		return {small(), small(), (uint8_t) dp.range(1, 8), exec, b()};
	}
	case M::ACCESSORY_PARA: { ref::Bytes r = {small(), b()}; int n = dp.range(0, 4); for (int i = 0; i < n; i++) r.push_back(b()); return r; }
	case M::LC_STAT: return {small(), small(), b()};
	case M::LC_NA: return {small(), small()};
	case M::LC_CONFIG: return {small(), small(), b(), b(), b(), b()};
	case M::LC_KEY: return {small(), (uint8_t) dp.pick(2)};
	case M::LC_WAIT: return {small(), small(), b()};
	case M::LC_CONFIGX: { ref::Bytes r = {small(), small()}; int n = dp.range(0, 3); for (int i = 0; i < n; i++) { r.push_back((uint8_t) dp.pick(0x40)); r.push_back(b()); } return r; }
	case M::LC_MACRO_STATE: return {small(), b()};
	case M::LC_MACRO: return {small(), small(), b(), b(), b(), b()};
	case M::LC_MACRO_PARA: return {small(), small(), b(), b(), b(), b()};
	case M::CS_STATE: return {CS_STATES[dp.pick(sizeof CS_STATES)]};
	case M::CS_DRIVE_ACK: return {b(), b(), (uint8_t) dp.pick(4)};
	case M::CS_ACCESSORY_ACK: return {b(), b(), (uint8_t) dp.pick(4)};
	case M::CS_POM_ACK: return {b(), b(), b(), b(), b(), (uint8_t) dp.pick(2)};
	case M::CS_DRIVE_MANUAL: return {b(), b(), (uint8_t) (dp.pick(4)), (uint8_t) dp.pick(64), b(), b(), b(), b(), b()};
	case M::CS_DRIVE_EVENT: {
		// the error variant is event code 1; the library and the statement only speak of "the error variant":
		// address low byte and event code agree (both 1 / both not 1) so that every reading classifies alike
		uint8_t ev = err ? 1 : (uint8_t) (2 + dp.pick(6));
		return {ev, b(), ev};
	}
	case M::CS_ACCESSORY_MANUAL: return {b(), b(), b()};
	case M::CS_PROG_STATE: return {small(), b(), b(), b(), b()};
	case M::CS_RCPLUS_ACK: return dp.bytes((size_t) dp.range(2, 8), true);
	default: return dp.bytes((size_t) dp.range(0, 8), true);
	}
}

}  // namespace traffic
}  // namespace vf
