#include "harness/vf.hpp"
#include "harness/bidib_cxx.h"
#include <unistd.h>
#include <sys/wait.h>
#include <sys/types.h>
#include <fcntl.h>
#include <poll.h>
#include <signal.h>
#include <cstring>
#include <cstdlib>
#include <regex>
#include <fstream>

extern "C" {
// the library's 15 locks; weak so that a renamed lock does not break the link
extern pthread_rwlock_t bidib_trains_rwlock __attribute__((weak));
extern pthread_rwlock_t bidib_boards_rwlock __attribute__((weak));
extern pthread_mutex_t bidib_action_id_mutex __attribute__((weak));
extern pthread_mutex_t trackstate_accessories_mutex __attribute__((weak));
extern pthread_mutex_t trackstate_peripherals_mutex __attribute__((weak));
extern pthread_mutex_t trackstate_segments_mutex __attribute__((weak));
extern pthread_mutex_t trackstate_reversers_mutex __attribute__((weak));
extern pthread_mutex_t trackstate_trains_mutex __attribute__((weak));
extern pthread_mutex_t trackstate_boosters_mutex __attribute__((weak));
extern pthread_mutex_t trackstate_track_outputs_mutex __attribute__((weak));
extern pthread_mutex_t bidib_node_state_table_mutex __attribute__((weak));
extern pthread_mutex_t bidib_send_buffer_mutex __attribute__((weak));
extern pthread_mutex_t bidib_uplink_queue_mutex __attribute__((weak));
extern pthread_mutex_t bidib_uplink_error_queue_mutex __attribute__((weak));
extern pthread_mutex_t bidib_uplink_intern_queue_mutex __attribute__((weak));
int __lsan_do_recoverable_leak_check(void) __attribute__((weak));
void __sanitizer_set_death_callback(void (*cb)(void)) __attribute__((weak));
void vf_on_property_failure(void) __attribute__((weak));
}

namespace vf {

Ctx *g_ctx = nullptr;
Session *g_sess = nullptr;
static int g_verdict_fd = -1;

uint64_t fnv(const std::string &s) {
	uint64_t h = 1469598103934665603ULL;
	for (unsigned char c : s) { h ^= c; h *= 1099511628211ULL; }
	return h;
}

// ------------------------------------------------------------------ verdict output
static std::string esc(const std::string &s) {
	std::string o;
	for (char c : s) {
		if (c == '\n') o += "\\n";
		else if (c == '\\') o += "\\\\";
		else o += c;
	}
	return o;
}
static std::string unesc(const std::string &s) {
	std::string o;
	for (size_t i = 0; i < s.size(); i++) {
		if (s[i] == '\\' && i + 1 < s.size()) {
			o += s[i + 1] == 'n' ? '\n' : s[i + 1];
			i++;
		} else o += s[i];
	}
	return o;
}

static void emit(Ctx &c, bool ok, const std::string &msg) {
	std::ostringstream o;
	o << "ok " << (ok ? 1 : 0) << "\n";
	o << "nontrivial " << (c.nontrivial ? 1 : 0) << "\n";
	std::string hs = c.hash_src.empty() ? c.desc.str() : c.hash_src;
	o << "hash " << fnv(hs) << "\n";
	for (auto &t : c.tags) o << "tag " << esc(t) << "\n";
	for (auto &kv : c.counters) o << "counter " << kv.second << " " << esc(kv.first) << "\n";
	vf_lock_edge e[256];
	size_t n = vf_lock_edges(e, 256);
	for (size_t i = 0; i < n; i++) o << "edge " << e[i].from << " " << e[i].to << "\n";
	o << "msg " << esc(msg) << "\n";
	std::string d = c.desc.str();
	if (d.size() > 6000) d = d.substr(0, 6000) + "...(truncated)";
	o << "desc " << esc(d) << "\n";
	if (!ok) {
		std::string lg;
		size_t nl = vf_log_count();
		for (size_t i = 0; i < vf_errlog_count(); i++) lg += std::string("ERR ") + vf_errlog_line(i) + "\n";
		for (size_t i = nl > 15 ? nl - 15 : 0; i < nl; i++) lg += std::string(vf_log_line(i)) + "\n";
		o << "log " << esc(lg) << "\n";
	}
	o << "END\n";
	std::string s = o.str();
	if (g_verdict_fd >= 0) {
		size_t off = 0;
		while (off < s.size()) {
			ssize_t w = write(g_verdict_fd, s.data() + off, s.size() - off);
			if (w <= 0) break;
			off += (size_t) w;
		}
	} else {
		fputs(s.c_str(), stdout);
	}
}

void Ctx::fail(const std::string &msg) {
	if (in_process) {
		fprintf(stderr, "\nVF-PROPERTY-FAILURE %s: %s\n--- case ---\n%s\n", prop.c_str(), msg.c_str(),
		        desc.str().c_str());
		size_t nl = vf_log_count();
		for (size_t i = nl > 25 ? nl - 25 : 0; i < nl; i++) fprintf(stderr, "  log: %s\n", vf_log_line(i));
		fflush(stderr);
		if (&vf_on_property_failure) vf_on_property_failure();      // the fuzz driver flushes its counters (a trap skips atexit)
		__builtin_trap();
	}
	emit(*this, false, msg);
	_exit(0);
}

void Ctx::finish_ok() {
	emit(*this, true, "");
	_exit(0);
}

// a sanitizer is about to kill the child: hand over what is known about the case
static void on_sanitizer_death(void) {
	if (!g_ctx || g_verdict_fd < 0) return;
	std::string d = g_ctx->desc.str();
	if (d.size() > 6000) d = d.substr(0, 6000) + "...(truncated)";
	std::string s = "desc " + esc(d) + "\n";
	(void) !write(g_verdict_fd, s.data(), s.size());
}

static bool g_hang_ok = false;
void hang_is_inconclusive(bool on) { g_hang_ok = on; }

static void on_fatal(const char *kind, const char *detail) {
	std::string k = kind;
	if (k == "hang" && g_hang_ok && !g_ctx->in_process) {
		g_ctx->tag("call-did-not-finish-within-the-virtual-time-budget(not-asserted-here)");
		g_ctx->finish_ok();
	}
	std::string m = (k == "hang" ? "HANG (virtual-time budget exceeded; a call polls or sleeps forever): "
	                             : "DEADLOCK (wait-for cycle / no thread can ever run): ");
	g_ctx->fail(m + detail);
}

// ------------------------------------------------------------------ session
static uint8_t read_cb(int *ok) {
	Session &s = *g_sess;
	uint8_t b;
	if (s.up.pop(vf_now_us(), b)) {
		s.empty_polls.store(0, std::memory_order_relaxed);
		s.bytes_read.fetch_add(1, std::memory_order_relaxed);
		*ok = 1;
		return b;
	}
	*ok = 0;
	s.empty_polls.fetch_add(1, std::memory_order_relaxed);
	return 0;
}

static void write_cb(uint8_t *d, int32_t n) {
	Session &s = *g_sess;
	if (n < 0) g_ctx->fail("write callback called with negative length");
	WriteRec w{vf_now_us(), vf_self(), s.down.size(), (size_t) n};
	s.down.insert(s.down.end(), d, d + n);
	s.writes.push_back(w);
	if (s.on_write) s.on_write(d, (size_t) n);
}

void Session::world(const ref::Bytes &sched) {
	g_sess = this;
	static ref::Bytes keep;            // the world keeps a pointer
	keep = sched;
	vf_world_init(keep.data(), keep.size());
	vf_set_fatal_handler(on_fatal);
	vf_set_time_cap(900ULL * 1000000ULL);
#define NAME(x) if (&x) vf_name_lock(&x, #x)
	NAME(bidib_trains_rwlock); NAME(bidib_boards_rwlock); NAME(bidib_action_id_mutex);
	NAME(trackstate_accessories_mutex); NAME(trackstate_peripherals_mutex);
	NAME(trackstate_segments_mutex); NAME(trackstate_reversers_mutex);
	NAME(trackstate_trains_mutex); NAME(trackstate_boosters_mutex);
	NAME(trackstate_track_outputs_mutex); NAME(bidib_node_state_table_mutex);
	NAME(bidib_send_buffer_mutex); NAME(bidib_uplink_queue_mutex);
	NAME(bidib_uplink_error_queue_mutex); NAME(bidib_uplink_intern_queue_mutex);
#undef NAME
}

int Session::start_debug(unsigned flush_interval) {
	bidib_set_lowlevel_debug_mode(true);
	int r = bidib_start_pointer(read_cb, write_cb, NULL, flush_interval);
	running = (r == 0);
	return r;
}

int Session::start_debug_keep_mode(unsigned flush_interval) {
	int r = bidib_start_pointer(read_cb, write_cb, NULL, flush_interval);
	running = (r == 0);
	return r;
}

int Session::start_files(const char *board, const char *track, const char *train, unsigned fi) {
	vf_clear_files();
	vf_set_file("/vf/cfg/bidib_board_config.yml", board, board ? strlen(board) : 0);
	vf_set_file("/vf/cfg/bidib_track_config.yml", track, track ? strlen(track) : 0);
	vf_set_file("/vf/cfg/bidib_train_config.yml", train, train ? strlen(train) : 0);
	bidib_set_lowlevel_debug_mode(false);
	int r = bidib_start_pointer(read_cb, write_cb, "/vf/cfg", fi);
	running = (r == 0);
	return r;
}

int Session::start_normal(const std::string &b, const std::string &t, const std::string &tr, unsigned fi) {
	return start_files(b.c_str(), t.c_str(), tr.c_str(), fi);
}

void Session::stop() {
	bidib_stop();
	running = false;
}

void Session::inject(const ref::Bytes &b, uint64_t delay) {
	up.push(b.data(), b.size(), vf_now_us() + delay);
}

uint8_t Session::next_up_seq(const ref::Bytes &addr) {
	std::string k(addr.begin(), addr.end());
	uint8_t &s = up_seq[k];
	s = (s == 255 || s == 0) ? 1 : (uint8_t) (s + 1);
	return s;
}

void Session::inject_packet(const std::vector<ref::Msg> &msgs, uint64_t delay) {
	ref::Bytes pl;
	for (auto &m : msgs) {
		ref::Bytes e = ref::encode_msg(m);
		pl.insert(pl.end(), e.begin(), e.end());
	}
	inject(ref::frame(pl), delay);
}

void Session::settle(unsigned extra) {
	// the receiver polls every 5 ms (inside a packet) or 10 ms (before the first delimiter)
	for (int guard = 0; guard < 200000; guard++) {
		if (up.empty() && empty_polls.load(std::memory_order_relaxed) >= extra) return;
		uint64_t ft = up.front_time(), now = vf_now_us();
		if (ft != UINT64_MAX && ft > now) {
			vf_usleep((unsigned) (ft - now));
			continue;
		}
		vf_usleep(5000);
	}
	g_ctx->fail("HANG: receiver never drained the uplink stream (200000 polls)");
}

void Session::advance(uint64_t us) {
	scripted_us += us;
	while (us > 0) {
		unsigned step = us > 1000000000ULL ? 1000000000U : (unsigned) us;
		vf_usleep(step);
		us -= step;
	}
}

std::vector<ref::Msg> Session::msgs_since(size_t mark, std::string *err) const {
	ref::StreamDecode d = ref::decode_strict(since(mark));
	if (err) *err = d.error;
	std::vector<ref::Msg> out;
	for (auto &p : d.packets)
		for (auto &m : p.msgs) out.push_back(m);
	return out;
}

static std::vector<ref::Bytes> drain(uint8_t *(*rd)(void)) {
	std::vector<ref::Bytes> out;
	for (int i = 0; i < 100000; i++) {
		uint8_t *m = rd();
		if (!m) break;
		out.emplace_back(m, m + m[0] + 1);
		free(m);
	}
	return out;
}
std::vector<ref::Bytes> Session::drain_messages() { return drain(bidib_read_message); }
std::vector<ref::Bytes> Session::drain_errors() { return drain(bidib_read_error_message); }
std::vector<ref::Bytes> Session::drain_intern() { return drain(bidib_read_intern_message); }

std::string lifecycle_anomalies(bool after_stop) {
	std::string r;
	for (size_t i = 0; i < vf_anomaly_count(); i++) r += std::string(vf_anomaly(i)) + "; ";
	if (after_stop) {
		char buf[600];
		if (vf_held_count(-1) > 0) {
			vf_describe_held(buf, sizeof buf);
			r += std::string("locks still held after stop: ") + buf + "; ";
		}
		if (vf_threads_alive() > 0) r += "library threads still alive after stop; ";
		if (vf_threads_unjoined_done() > 0) r += "thread finished but never joined; ";
	}
	return r;
}

// ------------------------------------------------------------------ registry
static std::vector<PropInfo> &reg() {
	static std::vector<PropInfo> v;
	return v;
}
void register_prop(const PropInfo &p) { reg().push_back(p); }
const std::vector<PropInfo> &props() { return reg(); }
const PropInfo *find_prop(const std::string &id) {
	for (auto &p : reg())
		if (id == p.id) return &p;
	return nullptr;
}

void run_case_here(const PropInfo &p, const ref::Bytes &data, const ref::Bytes &sched, Ctx &ctx) {
	g_ctx = &ctx;
	ctx.prop = p.id;
	DP dp(data);
	p.fn(dp, sched, ctx);
	if (p.leak_check && !ctx.in_process && &__lsan_do_recoverable_leak_check) {
		if (__lsan_do_recoverable_leak_check()) ctx.fail("LeakSanitizer: memory allocated during the case is unreachable at its end (see stderr)");
	}
}

// ------------------------------------------------------------------ fork runner
static std::string signature_of(const std::string &err) {
	// sanitizer kind + innermost libbidib frame
	std::smatch m;
	std::string kind, frame;
	static const std::regex k1("ERROR: (AddressSanitizer|LeakSanitizer|ThreadSanitizer): ([A-Za-z0-9_-]+)");
	static const std::regex k2("runtime error: ([^\\n]{0,80})");
	static const std::regex fr("#[0-9]+ 0x[0-9a-f]+ in (bidib_[A-Za-z0-9_]+)");
	static const std::regex loc("(bidib_[a-z_]+\\.c:[0-9]+)");
	if (std::regex_search(err, m, k1)) kind = m[1].str() + ":" + m[2].str();
	else if (std::regex_search(err, m, k2)) {
		kind = "UBSan:" + m[1].str();
		// strip concrete numbers for stability
		kind = std::regex_replace(kind, std::regex("[0-9]+"), "N");
	}
	if (std::regex_search(err, m, fr)) frame = m[1].str();
	else if (std::regex_search(err, m, loc)) frame = m[1].str();
	if (kind.empty()) return "";
	return kind + "@" + frame;
}

Verdict run_case_forked(const PropInfo &p, const ref::Bytes &data, const ref::Bytes &sched,
                        const std::set<std::string> &excluded) {
	Verdict v;
	int pv[2], pe[2];
	if (pipe(pv) || pipe(pe)) { perror("pipe"); exit(2); }
	fflush(stdout);
	fflush(stderr);
	pid_t pid = fork();
	if (pid < 0) { perror("fork"); exit(2); }
	if (pid == 0) {
		close(pv[0]);
		close(pe[0]);
		dup2(pe[1], 2);
		close(pe[1]);
		g_verdict_fd = pv[1];
		alarm(120);                       // wall-clock backstop only (=> inconclusive, see parent)
		Ctx ctx;
		g_ctx = &ctx;
		if (&__sanitizer_set_death_callback) __sanitizer_set_death_callback(on_sanitizer_death);
		ctx.excluded = excluded;
		run_case_here(p, data, sched, ctx);
		ctx.finish_ok();
	}
	close(pv[1]);
	close(pe[1]);
	std::string out, err;
	struct pollfd fds[2] = {{pv[0], POLLIN, 0}, {pe[0], POLLIN, 0}};
	int open_ = 2;
	char buf[8192];
	while (open_ > 0) {
		if (poll(fds, 2, -1) < 0) break;
		for (int i = 0; i < 2; i++) {
			if (fds[i].fd < 0) continue;
			if (fds[i].revents & (POLLIN | POLLHUP | POLLERR)) {
				ssize_t r = read(fds[i].fd, buf, sizeof buf);
				if (r > 0) (i == 0 ? out : err).append(buf, (size_t) r);
				else { close(fds[i].fd); fds[i].fd = -1; open_--; }
			}
		}
	}
	int st = 0;
	waitpid(pid, &st, 0);
	// parse
	std::istringstream is(out);
	std::string line;
	while (std::getline(is, line)) {
		if (line == "END") { v.complete = true; break; }
		size_t sp = line.find(' ');
		std::string k = line.substr(0, sp), val = sp == std::string::npos ? "" : line.substr(sp + 1);
		if (k == "ok") v.ok = val == "1";
		else if (k == "nontrivial") v.nontrivial = val == "1";
		else if (k == "hash") v.hash = strtoull(val.c_str(), nullptr, 10);
		else if (k == "tag") v.tags.insert(unesc(val));
		else if (k == "counter") {
			size_t s2 = val.find(' ');
			v.counters[unesc(val.substr(s2 + 1))] = atol(val.substr(0, s2).c_str());
		} else if (k == "edge") v.lock_edges.push_back(val);
		else if (k == "msg") v.msg = unesc(val);
		else if (k == "desc") v.desc = unesc(val);
		else if (k == "log") v.stderr_tail = unesc(val);
	}
	if (!v.complete) {
		v.ok = false;
		v.signature = signature_of(err);
		if (WIFSIGNALED(st) && WTERMSIG(st) == SIGALRM) {
			v.msg = "INCONCLUSIVE: wall-clock backstop (120 s) hit";
			v.signature = "wallclock-backstop";
		} else {
			std::string first;
			size_t pos = err.find("ERROR:");
			if (pos == std::string::npos) pos = err.find("runtime error:");
			if (pos != std::string::npos) first = err.substr(pos, err.find('\n', pos) - pos);
			v.msg = "child died without verdict (" +
			        (WIFSIGNALED(st) ? "signal " + std::to_string(WTERMSIG(st))
			                         : "exit " + std::to_string(WEXITSTATUS(st))) +
			        ") " + first;
		}
		// keep the report readable: drop over-long template frames
		std::string trimmed;
		{
			std::istringstream es(err);
			std::string l;
			int kept = 0;
			while (std::getline(es, l) && kept < 45) {
				if (l.size() > 260) l = l.substr(0, 260) + " ...";
				if (l.find("rc::") != std::string::npos || l.find("std::_") != std::string::npos) continue;
				trimmed += l + "\n";
				kept++;
			}
		}
		v.stderr_tail = trimmed;
	} else if (v.ok && err.find("WARNING: ThreadSanitizer:") != std::string::npos) {
		if (const char *dump = getenv("VF_DUMP_TSAN")) { std::ofstream df(dump, std::ios::app); df << err << "\n=====\n"; }       // triage aid
		// free-running flavour: the case finished, but ThreadSanitizer reported on the way. A report counts when one of
		// its stacks has a libbidib frame and none of them is in a call outside the documented thread-safety contract.
		size_t pos = 0;
		while ((pos = err.find("WARNING: ThreadSanitizer:", pos)) != std::string::npos) {
			size_t end = err.find("SUMMARY: ThreadSanitizer", pos);
			if (end == std::string::npos) end = err.size();
			else end = err.find('\n', end) == std::string::npos ? err.size() : err.find('\n', end);
			std::string rep = err.substr(pos, end - pos);
			pos = end;
			static const std::regex lib("#[0-9]+ (bidib_[A-Za-z0-9_]+) ");
			static const std::regex outside("#[0-9]+ (bidib_start_[a-z]+|bidib_stop|bidib_send_sys_reset|bidib_communication_works) ");
			// only the stacks of the two conflicting accesses count (not "Thread T3 created by ... bidib_start_pointer",
			// mutex creation stacks, "as if synchronized via sleep" ...)
			std::string acc;
			{
				std::istringstream rs(rep);
				std::string l;
				bool in_access = false;
				while (std::getline(rs, l)) {
					// "Read of size 4 at ... by thread T3", "Previous atomic write of size ... by main thread"; NOT
					// "Location is heap block of size 1024 ... allocated by main thread" (its stack is where the memory was allocated)
					static const std::regex headre("^\\s*(Previous )?(atomic )?(read|write) of size ", std::regex::icase);
					bool head = std::regex_search(l, headre);
					if (head) in_access = true;
					else if (l.find_first_not_of(" \t") == std::string::npos) in_access = false;
					if (in_access) acc += l + "\n";
				}
			}
			std::smatch m;
			if (!std::regex_search(acc, m, lib)) continue;            // harness-only report
			std::string frame = m[1].str();
			if (std::regex_search(acc, outside)) continue;
			if (acc.find("__cyg_profile_func_enter") != std::string::npos && acc.find("contracts.cpp") != std::string::npos && frame.empty()) continue;
			std::string kind = rep.substr(26, rep.find(' ', 26) == std::string::npos ? 10 : rep.find('(', 26) - 27);
			v.ok = false;
			v.signature = "ThreadSanitizer:" + std::regex_replace(kind, std::regex(" "), "-") + "@" + frame;
			v.msg = "ThreadSanitizer report in library code while the documented thread-safe API was used concurrently:\n" + (rep.size() > 3500 ? rep.substr(0, 3500) : rep);
			break;
		}
	} else if (!v.ok) {
		if (v.signature.empty()) {
			// semantic failure: signature = message with numbers and hex blanked
			std::string s = v.msg.substr(0, v.msg.find(':'));
			v.signature = "oracle:" + s;
		}
		if (!err.empty()) v.stderr_tail += "\n--- stderr ---\n" + (err.size() > 4000 ? err.substr(0, 4000) : err);
	}
	return v;
}

}  // namespace vf
