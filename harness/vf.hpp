// Core of the harness: case context (verdict, classification), the library session
// (I/O callbacks, transcript, uplink injection) and the property registry.
#pragma once
#include <cstdint>
#include <cstdio>
#include <string>
#include <vector>
#include <deque>
#include <map>
#include <set>
#include <functional>
#include <sstream>
#include <atomic>
#include "harness/dp.hpp"
#include "ref/codec.hpp"
#include "world/world.h"

namespace vf {

// ---------------------------------------------------------------- verdict / context
struct Ctx {
	std::string prop;
	bool nontrivial = false;
	std::set<std::string> tags;
	std::map<std::string, long> counters;
	std::ostringstream desc;          // human readable rendering of the decoded case
	std::string hash_src;             // canonical text hashed for "distinct"
	std::set<std::string> excluded;   // exclusion predicates in force (known findings)
	bool in_process = false;          // libFuzzer / replay without fork

	void tag(const std::string &t) { tags.insert(t); }
	void count(const std::string &k, long d = 1) { counters[k] += d; }
	bool excl(const std::string &name) {
		if (excluded.count(name)) { count("excluded:" + name); return true; }
		return false;
	}
	// never returns
	[[noreturn]] void fail(const std::string &msg);
	[[noreturn]] void finish_ok();
	void check(bool c, const std::string &msg) { if (!c) fail(msg); }
};
extern Ctx *g_ctx;

// ---------------------------------------------------------------- session
struct WriteRec {
	uint64_t t_us;
	int tid;
	size_t off, len;    // range in Session::down
};

// Uplink byte queue between the injecting threads (harness, bus simulator inside the write callback) and the
// library's receiver thread (read callback). Multi-producer / single-consumer ring with acquire/release
// publication only, so that it is also usable under ThreadSanitizer with real threads without adding
// happens-before edges other than producer -> consumer (the causality of a real bus).
struct UpQueue {
	static const size_t CAP = 1u << 17;
	struct Slot { uint64_t t; uint8_t b; };
	Slot *slots = new Slot[CAP];
	std::atomic<size_t> head{0}, tail{0};     // consumer / producers
	std::atomic_flag plock = ATOMIC_FLAG_INIT;
	uint64_t last_t = 0;                      // guarded by plock
	~UpQueue() { delete[] slots; }
	bool empty() const { return head.load(std::memory_order_relaxed) == tail.load(std::memory_order_acquire); }
	void clear() { head.store(tail.load(std::memory_order_acquire), std::memory_order_relaxed); }
	void push(const uint8_t *d, size_t n, uint64_t t) {
		while (plock.test_and_set(std::memory_order_acquire)) {}
		if (t < last_t) t = last_t;           // keep FIFO order
		last_t = t;
		size_t tl = tail.load(std::memory_order_relaxed);
		for (size_t i = 0; i < n; i++) { slots[(tl + i) % CAP] = {t, d[i]}; }
		tail.store(tl + n, std::memory_order_release);
		plock.clear(std::memory_order_release);
	}
	// consumer: next byte if its release time has come
	bool pop(uint64_t now, uint8_t &b) {
		size_t h = head.load(std::memory_order_relaxed);
		if (h == tail.load(std::memory_order_acquire)) return false;
		const Slot &s = slots[h % CAP];
		if (s.t > now) return false;
		b = s.b;
		head.store(h + 1, std::memory_order_relaxed);
		return true;
	}
	// release time of the next byte (UINT64_MAX if empty); harness side
	uint64_t front_time() const {
		size_t h = head.load(std::memory_order_relaxed);
		if (h == tail.load(std::memory_order_acquire)) return UINT64_MAX;
		return slots[h % CAP].t;
	}
};

struct Session {
	ref::Bytes down;                         // everything handed to the write callback
	std::vector<WriteRec> writes;
	UpQueue up;                              // (release time, byte)
	std::atomic<unsigned long> empty_polls{0};   // consecutive empty polls of the read callback
	std::atomic<unsigned long> bytes_read{0};
	bool running = false;
	std::function<void(const uint8_t *, size_t)> on_write;   // bus simulator hook
	std::map<std::string, uint8_t> up_seq;   // per node uplink sequence numbers (harness side)
	uint64_t scripted_us = 0;                // sum of scripted advances (for the time cap)

	// world + library life cycle
	void world(const ref::Bytes &sched);     // initialises the world; names the locks
	int start_debug(unsigned flush_interval);
	int start_debug_keep_mode(unsigned flush_interval);      // the debug-mode switch is left as the previous session set it
	int start_normal(const std::string &board, const std::string &track, const std::string &train,
	                 unsigned flush_interval);
	int start_files(const char *board, const char *track, const char *train, unsigned flush_interval);
	void stop();

	// uplink
	void inject(const ref::Bytes &b, uint64_t delay_us = 0);
	// frames the messages in one packet; assigns per-node sequence numbers when seq==0xFFFF
	void inject_packet(const std::vector<ref::Msg> &msgs, uint64_t delay_us = 0);
	uint8_t next_up_seq(const ref::Bytes &addr);
	void reset_up_seq() { up_seq.clear(); }
	// lets virtual time pass until the receiver has consumed everything and polled empty
	void settle(unsigned extra_polls = 1);
	void advance(uint64_t us);

	// downlink
	size_t mark() const { return down.size(); }
	ref::Bytes since(size_t mark) const { return ref::Bytes(down.begin() + (long) mark, down.end()); }
	std::vector<ref::Msg> msgs_since(size_t mark, std::string *err = nullptr) const;

	// drains bidib_read_message()/bidib_read_error_message(); each returned buffer is
	// copied with its own length byte and freed.
	static std::vector<ref::Bytes> drain_messages();
	static std::vector<ref::Bytes> drain_errors();
	static std::vector<ref::Bytes> drain_intern();
};
extern Session *g_sess;

// While set, a virtual-time budget overrun ends the case as "held" (tag start-did-not-finish) instead of failing it: used where
// the statement does not promise termination (start against an interface that lies about its node table).
void hang_is_inconclusive(bool on);

// common epilogue checks (lock table empty, thread ledger balanced, anomalies)
std::string lifecycle_anomalies(bool after_stop);

// ---------------------------------------------------------------- properties
using PropFn = void (*)(DP &dp, const ref::Bytes &sched, Ctx &ctx);
struct PropInfo {
	const char *id;
	PropFn fn;
	const char *rule;         // non-trivial rule text
	unsigned data_scale;      // generated data length at nominal size (bytes)
	unsigned sched_scale;     // schedule bytes at nominal size
	bool leak_check;          // run the recoverable LeakSanitizer check at the end of a case
};
void register_prop(const PropInfo &p);
const std::vector<PropInfo> &props();
const PropInfo *find_prop(const std::string &id);
struct PropReg { PropReg(const PropInfo &p) { register_prop(p); } };

// runs one case in this process (used by the forked child, by replay and by libFuzzer)
void run_case_here(const PropInfo &p, const ref::Bytes &data, const ref::Bytes &sched, Ctx &ctx);

// output of a finished case (child -> parent)
struct Verdict {
	bool complete = false;    // child delivered a verdict
	bool ok = false;
	bool nontrivial = false;
	uint64_t hash = 0;
	std::string msg, desc, signature, stderr_tail;
	std::set<std::string> tags;
	std::map<std::string, long> counters;
	std::vector<std::string> lock_edges;
};
Verdict run_case_forked(const PropInfo &p, const ref::Bytes &data, const ref::Bytes &sched,
                        const std::set<std::string> &excluded);

uint64_t fnv(const std::string &s);

}  // namespace vf
