// Bound calls of the documented thread-safe public API (every getter, every high-level setter and
// admin call, every low-level sender, flush, the two queue readers) with arguments of a chosen class:
// valid / unknown id / id of another kind / NULL / out-of-range value. A call is bound by the
// generating thread and can then be executed by any thread (C10, C11).
#pragma once
#include "harness/normal.hpp"
#include "harness/sends.hpp"
#include "props/getters.hpp"
#include <functional>
#include <memory>

namespace vf {
namespace api {

struct Call {
	std::string text;
	std::function<void()> run;
};

struct Pools {
	std::vector<std::string> by_kind[14];
	std::vector<std::pair<std::string, std::string>> train_periphs;
	std::vector<std::array<uint8_t, 7>> uids;
	std::vector<std::array<uint8_t, 3>> naddrs;
	std::vector<std::array<uint8_t, 2>> dccs;
	std::map<std::string, std::vector<std::string>> aspects;      // accessory / peripheral id -> aspect ids
	std::vector<ref::Bytes> node_addrs;
};

static inline Pools pools_of(Normal &n) {
	Pools p;
	for (auto &b : n.c.boards) {
		p.by_kind[gq::A_BOARD].push_back(b.id);
		if (b.is_booster()) p.by_kind[gq::A_BOOSTER].push_back(b.id);
		if (b.is_track_output()) p.by_kind[gq::A_OUTPUT].push_back(b.id);
		p.uids.push_back(b.uid);
		if (!b.in_track) continue;
		for (auto &x : b.points_board) { p.by_kind[gq::A_POINT].push_back(x.id); for (auto &a : x.aspects) p.aspects[x.id].push_back(a.id); }
		for (auto &x : b.points_dcc) { p.by_kind[gq::A_POINT].push_back(x.id); for (auto &a : x.aspects) p.aspects[x.id].push_back(a.id); }
		for (auto &x : b.signals_board) { p.by_kind[gq::A_SIGNAL].push_back(x.id); for (auto &a : x.aspects) p.aspects[x.id].push_back(a.id); }
		for (auto &x : b.signals_dcc) { p.by_kind[gq::A_SIGNAL].push_back(x.id); for (auto &a : x.aspects) p.aspects[x.id].push_back(a.id); }
		for (auto &x : b.peripherals) { p.by_kind[gq::A_PERIPHERAL].push_back(x.id); for (auto &a : x.aspects) p.aspects[x.id].push_back(a.id); }
		for (auto &x : b.segments) p.by_kind[gq::A_SEGMENT].push_back(x.id);
		for (auto &x : b.reversers) p.by_kind[gq::A_REVERSER].push_back(x.id);
	}
	for (auto &t : n.c.trains) {
		p.by_kind[gq::A_TRAIN].push_back(t.id);
		p.dccs.push_back({t.addrl, t.addrh});
		for (auto &f : t.periphs) p.train_periphs.push_back({t.id, f.id});
	}
	for (auto &bn : n.bus.nodes) {
		std::array<uint8_t, 3> a = {0, 0, 0};
		for (size_t i = 0; i < bn.addr.size() && i < 3; i++) a[i] = bn.addr[i];
		p.naddrs.push_back(a);
		p.node_addrs.push_back(bn.addr);
	}
	return p;
}

// argument classes
enum Cls { VALID = 0, UNKNOWN = 1, NULLP = 2, FOREIGN = 3 };

struct Arg { bool null = false; std::string s; const char *c() const { return null ? nullptr : s.c_str(); } std::string show() const { return null ? "NULL" : s; } };

static inline Arg pick_id(DP &dp, const Pools &P, int kind, Cls cls) {
	Arg a;
	if (cls == NULLP) { a.null = true; return a; }
	if (cls == VALID && !P.by_kind[kind].empty()) { a.s = P.by_kind[kind][dp.pick((unsigned) P.by_kind[kind].size())]; return a; }
	if (cls == FOREIGN) {
		int other = 1 + (int) dp.pick(9);
		if (other != kind && !P.by_kind[other].empty()) { a.s = P.by_kind[other][dp.pick((unsigned) P.by_kind[other].size())]; return a; }
	}
	a.s = "no_such_id";
	return a;
}

// one getter call of the table with arguments of class cls
static inline Call getter_call(DP &dp, const Pools &P, size_t gi, Cls cls) {
	const gq::Getter &g = gq::getters()[gi];
	auto id = std::make_shared<Arg>(), id2 = std::make_shared<Arg>();
	auto raw = std::make_shared<std::array<uint8_t, 7>>();
	raw->fill(0xEE);
	std::string argtxt;
	if (g.arg == gq::A_UID) { if (cls == VALID && !P.uids.empty()) *raw = P.uids[dp.pick((unsigned) P.uids.size())]; argtxt = "uid " + hex(raw->data(), 7); }
	else if (g.arg == gq::A_NODEADDR) { if (cls == VALID && !P.naddrs.empty()) { auto &a = P.naddrs[dp.pick((unsigned) P.naddrs.size())]; (*raw)[0] = a[0]; (*raw)[1] = a[1]; (*raw)[2] = a[2]; } argtxt = "node " + hex(raw->data(), 3); }
	else if (g.arg == gq::A_DCCADDR) { if (cls == VALID && !P.dccs.empty()) { auto &a = P.dccs[dp.pick((unsigned) P.dccs.size())]; (*raw)[0] = a[0]; (*raw)[1] = a[1]; } else (*raw)[1] = 0x3E; argtxt = "dcc " + hex(raw->data(), 2); }
	else if (g.arg == gq::A_TRAIN_PERIPH) {
		if (cls == VALID && !P.train_periphs.empty()) { auto &tp = P.train_periphs[dp.pick((unsigned) P.train_periphs.size())]; id->s = tp.first; id2->s = tp.second; }
		else { *id = pick_id(dp, P, gq::A_TRAIN, dp.flag() ? VALID : cls); *id2 = pick_id(dp, P, gq::A_TRAIN, cls == NULLP ? NULLP : UNKNOWN); }
		argtxt = id->show() + ", " + id2->show();
	} else if (g.arg != gq::A_NONE) { *id = pick_id(dp, P, g.arg, cls); argtxt = id->show(); }
	Call c;
	c.text = std::string(g.name) + "(" + argtxt + ")";
	const gq::Getter *gp = &g;
	c.run = [gp, id, id2, raw]() {
		gq::Result r = gp->call(id->c(), id2->c(), raw->data());
		gq::Render v;                 // reads every field
		r.visit(v, false);
		r.free_();
	};
	return c;
}

static const int N_SETTERS = 15;
// high-level setter / admin call number si (0..N_SETTERS-1) with arguments of class cls
static inline Call setter_call(DP &dp, const Pools &P, int si, Cls cls) {
	Call c;
	auto a = std::make_shared<Arg>(), b = std::make_shared<Arg>(), d = std::make_shared<Arg>();
	auto aspect_of = [&](const Arg &acc) {
		Arg x;
		auto it = P.aspects.find(acc.s);
		if (cls == NULLP && dp.flag()) { x.null = true; return x; }
		if (!acc.null && it != P.aspects.end() && !it->second.empty() && cls != UNKNOWN) x.s = it->second[dp.pick((unsigned) it->second.size())];
		else x.s = "no_such_aspect";
		return x;
	};
	switch (si) {
	case 0: *a = pick_id(dp, P, gq::A_POINT, cls); *b = aspect_of(*a); c.text = "bidib_switch_point(" + a->show() + ", " + b->show() + ")"; c.run = [a, b] { bidib_switch_point(a->c(), b->c()); }; break;
	case 1: *a = pick_id(dp, P, gq::A_SIGNAL, cls); *b = aspect_of(*a); c.text = "bidib_set_signal(" + a->show() + ", " + b->show() + ")"; c.run = [a, b] { bidib_set_signal(a->c(), b->c()); }; break;
	case 2: *a = pick_id(dp, P, gq::A_PERIPHERAL, cls); *b = aspect_of(*a); c.text = "bidib_set_peripheral(" + a->show() + ", " + b->show() + ")"; c.run = [a, b] { bidib_set_peripheral(a->c(), b->c()); }; break;
	case 3: { *a = pick_id(dp, P, gq::A_TRAIN, cls); *b = pick_id(dp, P, gq::A_OUTPUT, dp.chance(200) ? VALID : cls); int sp = cls == UNKNOWN && dp.flag() ? 200 : dp.range(-126, 126);
		c.text = "bidib_set_train_speed(" + a->show() + ", " + std::to_string(sp) + ", " + b->show() + ")"; c.run = [a, b, sp] { bidib_set_train_speed(a->c(), sp, b->c()); }; break; }
	case 4: { *a = pick_id(dp, P, gq::A_TRAIN, cls); *b = pick_id(dp, P, gq::A_OUTPUT, dp.chance(200) ? VALID : cls); int sp = dp.range(-10, 10);
		c.text = "bidib_set_calibrated_train_speed(" + a->show() + ", " + std::to_string(sp) + ", " + b->show() + ")"; c.run = [a, b, sp] { bidib_set_calibrated_train_speed(a->c(), sp, b->c()); }; break; }
	case 5: *a = pick_id(dp, P, gq::A_TRAIN, cls); *b = pick_id(dp, P, gq::A_OUTPUT, dp.chance(200) ? VALID : cls); c.text = "bidib_emergency_stop_train(" + a->show() + ", " + b->show() + ")"; c.run = [a, b] { bidib_emergency_stop_train(a->c(), b->c()); }; break;
	case 6: {
		if (cls == VALID && !P.train_periphs.empty()) { auto &tp = P.train_periphs[dp.pick((unsigned) P.train_periphs.size())]; a->s = tp.first; d->s = tp.second; }
		else { *a = pick_id(dp, P, gq::A_TRAIN, dp.flag() ? VALID : cls); *d = pick_id(dp, P, gq::A_TRAIN, cls == NULLP ? NULLP : UNKNOWN); }
		*b = pick_id(dp, P, gq::A_OUTPUT, dp.chance(200) ? VALID : cls);
		uint8_t st = cls == UNKNOWN && dp.flag() ? 7 : (uint8_t) dp.pick(2);
		c.text = "bidib_set_train_peripheral(" + a->show() + ", " + d->show() + ", " + std::to_string(st) + ", " + b->show() + ")";
		c.run = [a, d, b, st] { bidib_set_train_peripheral(a->c(), d->c(), st, b->c()); };
		break;
	}
	case 7: { *a = pick_id(dp, P, gq::A_BOOSTER, cls); bool on = dp.flag(); c.text = "bidib_set_booster_power_state(" + a->show() + ", " + std::to_string(on) + ")"; c.run = [a, on] { bidib_set_booster_power_state(a->c(), on); }; break; }
	case 8: { *a = pick_id(dp, P, gq::A_OUTPUT, cls); static const uint8_t st[] = {0, 1, 2, 3, 4, 8}; uint8_t s = st[dp.pick(6)]; c.text = "bidib_set_track_output_state(" + a->show() + ", " + std::to_string(s) + ")"; c.run = [a, s] { bidib_set_track_output_state(a->c(), (t_bidib_cs_state) s); }; break; }
	case 9: { static const uint8_t st[] = {0, 1, 2, 3}; uint8_t s = st[dp.pick(4)]; c.text = "bidib_set_track_output_state_all(" + std::to_string(s) + ")"; c.run = [s] { bidib_set_track_output_state_all((t_bidib_cs_state) s); }; break; }
	case 10: *a = pick_id(dp, P, gq::A_REVERSER, cls); *b = pick_id(dp, P, gq::A_BOARD, dp.chance(200) ? VALID : cls); c.text = "bidib_request_reverser_state(" + a->show() + ", " + b->show() + ")"; c.run = [a, b] { bidib_request_reverser_state(a->c(), b->c()); }; break;
	case 11: { *a = pick_id(dp, P, gq::A_BOARD, cls); uint8_t v = dp.u8(); c.text = "bidib_ping(" + a->show() + ", " + std::to_string(v) + ")"; c.run = [a, v] { bidib_ping(a->c(), v); }; break; }
	case 12: { *a = pick_id(dp, P, gq::A_BOARD, cls); uint8_t v = (uint8_t) dp.pick(2); c.text = "bidib_identify(" + a->show() + ", " + std::to_string(v) + ")"; c.run = [a, v] { bidib_identify(a->c(), v); }; break; }
	case 13: *a = pick_id(dp, P, gq::A_BOARD, cls); c.text = "bidib_get_protocol_version(" + a->show() + ")"; c.run = [a] { bidib_get_protocol_version(a->c()); }; break;
	default: *a = pick_id(dp, P, gq::A_BOARD, cls); c.text = "bidib_get_software_version(" + a->show() + ")"; c.run = [a] { bidib_get_software_version(a->c()); }; break;
	}
	return c;
}

// low-level sender fi of the send table, to a node of the bus (or a generated address), in or out of range
static inline Call sender_call(DP &dp, const Pools &P, int fi, bool in_range) {
	auto sc = std::make_shared<SendCall>(draw_send(dp, in_range, fi));
	if (!P.node_addrs.empty() && dp.chance(200)) sc->addr = P.node_addrs[dp.pick((unsigned) P.node_addrs.size())];
	Call c;
	c.text = sc->text();
	c.run = [sc] { do_send(*sc); };
	return c;
}

static inline Call misc_call(int k) {
	Call c;
	if (k == 0) { c.text = "bidib_flush()"; c.run = [] { bidib_flush(); }; }
	else if (k == 1) { c.text = "bidib_read_message()"; c.run = [] { uint8_t *m = bidib_read_message(); if (m) free(m); }; }
	else { c.text = "bidib_read_error_message()"; c.run = [] { uint8_t *m = bidib_read_error_message(); if (m) free(m); }; }
	return c;
}

// a random call of any kind
static inline Call any_call(DP &dp, const Pools &P) {
	unsigned k = dp.weighted({10, 8, 6, 2});
	Cls cls = (Cls) dp.weighted({10, 3, 2, 2});
	if (k == 0) return getter_call(dp, P, dp.pick((unsigned) gq::getters().size()), cls);
	if (k == 1) return setter_call(dp, P, (int) dp.pick(N_SETTERS), cls);
	if (k == 2) return sender_call(dp, P, (int) dp.pick((unsigned) send_table().size()), !dp.chance(40));
	return misc_call((int) dp.pick(3));
}

}  // namespace api
}  // namespace vf
