// C01 — Downlink bytes are well-formed packets carrying each sent message exactly once.
//
// Domain: debug-mode session; 1..4 sender threads with generated lists of low-level send
// calls (all public constructors, arguments inside their documented ranges, payload bytes
// biased to FE/FD/...), flushes, virtual delays; capacity announcements 0..255 from the
// interface; auto-flush interval {0,1,5,50} ms; generated schedule.
// Oracle: R-codec strict decode of the concatenated write-callback bytes; multiset equality
// with R-encode of all calls (sequence byte ignored, it belongs to C05); per-node wire
// order is an interleaving of the per-thread call orders; multi-message packets respect
// the largest capacity in force.
#include "harness/vf.hpp"
#include "harness/normal.hpp"
#include "harness/sends.hpp"
#include "harness/bidib_cxx.h"
#include "ref/msgs.hpp"
#include "ref/resp.hpp"
#include <algorithm>
#include <cstring>

using namespace vf;

namespace {

struct Op {
	enum K { SEND, FLUSH, ADV, CAP, ANS } k;
	SendCall call;
	unsigned val = 0;
};

struct ThreadPlan {
	std::vector<Op> ops;
};

void *thread_main(void *arg) {
	ThreadPlan *p = (ThreadPlan *) arg;
	for (auto &op : p->ops) {
		switch (op.k) {
		case Op::SEND: do_send(op.call); break;
		case Op::FLUSH: bidib_flush(); break;
		case Op::ADV: vf_usleep(op.val); break;
		case Op::CAP: case Op::ANS: break;
		}
	}
	return nullptr;
}

std::string key(const ref::Bytes &a) { return std::string(a.begin(), a.end()); }

// is `wire` an interleaving of the sequences in `seqs`? (memoised search, bounded)
bool is_interleaving(const std::vector<ref::Msg> &wire, const std::vector<std::vector<ref::Msg>> &seqs, bool &gave_up) {
	size_t k = seqs.size();
	std::set<std::vector<size_t>> seen;
	std::vector<std::vector<size_t>> stack;
	stack.push_back(std::vector<size_t>(k, 0));
	size_t explored = 0;
	while (!stack.empty()) {
		auto idx = stack.back();
		stack.pop_back();
		if (!seen.insert(idx).second) continue;
		if (++explored > 200000) { gave_up = true; return true; }
		size_t pos = 0;
		for (size_t i = 0; i < k; i++) pos += idx[i];
		if (pos == wire.size()) return true;
		for (size_t i = 0; i < k; i++) {
			if (idx[i] < seqs[i].size() && seqs[i][idx[i]].same_but_seq(wire[pos])) {
				auto n = idx;
				n[i]++;
				stack.push_back(n);
			}
		}
	}
	return false;
}

void prop(DP &dp, const ref::Bytes &sched, Ctx &ctx) {
	Session own;
	Normal n;
	// "live capacity" cases run a normal-mode session (one interface board on a simulated bus that goes silent after the
	// start): only there does the library evaluate MSG_PKT_CAPACITY - in low-level debug mode every uplink message goes
	// straight to the read queue and the capacity in force stays 64 whatever is announced
	bool live_capacity = dp.chance(80);
	if (live_capacity) {
		NormalOpts o;
		o.gen.max_boards = 1; o.gen.min_boards = 1; o.gen.max_items = 0; o.gen.max_trains = 0;
		o.present_mode = 1; o.max_unknown = 0;
		n.prepare(dp, sched, o);
	} else own.world(sched);
	Session &s = live_capacity ? n.s : own;
	static const unsigned FI[] = {0, 1, 5, 50};
	unsigned fi = FI[dp.pick(4)];
	unsigned nthreads = 1 + dp.weighted({6, 3, 2, 1});
	bool hot = dp.chance(40);       // payloads made of escape-needing bytes only
	// deferred mode: the per-node budget is NOT respected by the generator; messages beyond it are held back by the library
	// and released by the receiver thread when answers arrive (injected by thread 0) - concurrently with the other senders.
	// "Once flushed every message ... appears exactly once" is then judged after everything has been answered.
	bool deferred_mode = dp.chance(70);
	ctx.desc << "C01 auto_flush=" << fi << "ms threads=" << nthreads << (hot ? " hot-payloads" : "") << (deferred_mode ? " deferred-mode" : "") << (live_capacity ? " normal-mode(live capacity)" : " debug-mode") << "\n";

	// cumulative response budget per node keeps every message "accepted for immediate
	// transmission" (<= 48 bytes outstanding even if nothing is ever answered)
	std::map<std::string, int> budget;
	std::map<std::string, std::set<uint8_t>> node_types;      // deferred mode: request types sent to each node
	std::vector<ThreadPlan> plans(nthreads);
	std::vector<uint8_t> caps;
	unsigned total_sends = 0;
	auto fn_of = [](const char *name) { for (size_t q = 0; q < send_table().size(); q++) if (!strcmp(send_table()[q].name, name)) return (int) q; return 0; };
	if (deferred_mode && dp.chance(140)) {
		// check-then-act window of the send buffer: a message of thread 0 that needs a pre-flush (fill + L1 > capacity) while
		// the receiver thread releases a deferred message that still fits the stale fill level (fill + L2 <= capacity,
		// L1 + L2 > capacity). Sizes are generated around these bounds; whether the two threads meet is up to the schedule.
		ctx.tag("pre-flush-vs-release-recipe");
		auto add = [&](SendCall c) { Op op; op.k = Op::SEND; op.call = c; node_types[key(c.addr)].insert(send_table()[(size_t) c.fn].type); plans[0].ops.push_back(op); total_sends++; };
		unsigned fill_msgs = (unsigned) dp.range(1, 3);                // 6 bytes each
		unsigned fill = 6 * fill_msgs;
		unsigned L1 = (unsigned) dp.range((int) (65 - fill), 60);
		unsigned L2lo = 65 - L1 < 8 ? 8 : 65 - L1, L2hi = 64 - fill < 60 ? 64 - fill : 60;
		unsigned L2 = (unsigned) dp.range((int) L2lo, (int) (L2hi < L2lo ? L2lo : L2hi));
		for (int r = 0; r < 2; r++) {                                   // 2 x 32 response bytes: the second request is deferred
			SendCall c = draw_send(dp, true, fn_of("bidib_send_vendor_get"));
			c.addr = {0x11};
			c.p1 = dp.bytes(r == 0 ? 3 : L2 - 7, false);
			add(c);
		}
		{ Op op; op.k = Op::FLUSH; plans[0].ops.push_back(op); }
		for (unsigned r = 0; r < fill_msgs; r++) { SendCall c = draw_send(dp, true, fn_of("bidib_send_sys_ping")); c.addr = {0x12}; add(c); }
		{ Op op; op.k = Op::ANS; plans[0].ops.push_back(op); }
		{ SendCall c = draw_send(dp, true, fn_of("bidib_send_string_set")); c.addr = {0x13}; c.p1 = dp.bytes(L1 - 8, false); add(c); }
		{ Op op; op.k = Op::ADV; op.val = 12000; plans[0].ops.push_back(op); }
		{ Op op; op.k = Op::FLUSH; plans[0].ops.push_back(op); }
	}
	if (live_capacity && dp.chance(70)) {
		// a packet whose escaped image is longer than the 312-byte staging buffer of the sender: a large capacity in force,
		// several long messages made of bytes that all need escaping, no flush in between
		ctx.tag("big-image-recipe");
		{ Op op; op.k = Op::CAP; op.val = (unsigned) dp.range(200, 255); plans[0].ops.push_back(op); }
		unsigned k = (unsigned) dp.range(3, 5);
		for (unsigned i = 0; i < k; i++) {
			SendCall c = draw_send(dp, true, fn_of(dp.flag() ? "bidib_send_string_set" : "bidib_send_vendor_get"));
			c.addr = {(uint8_t) (0x21 + i)};
			c.p1 = dp.bytes((size_t) dp.range(30, 44), false);
			for (auto &b : c.p1) b = (b & 1) ? 0xFE : 0xFD;
			Op op; op.k = Op::SEND; op.call = c;
			node_types[key(c.addr)].insert(send_table()[(size_t) c.fn].type);
			budget[key(c.addr)] += ref::RESP[send_table()[(size_t) c.fn].type & 0x7f].size;
			plans[0].ops.push_back(op);
			total_sends++;
		}
		{ Op op; op.k = Op::FLUSH; plans[0].ops.push_back(op); }
	}
	for (unsigned t = 0; t < nthreads; t++) {
		unsigned nops = (unsigned) dp.range(1, 40);
		for (unsigned i = 0; i < nops && dp.more(); i++) {
			Op op;
			switch (dp.weighted({14, 3, 2, t == 0 ? 2u : 0u, (t == 0 && deferred_mode) ? 5u : 0u})) {
			case 0: {
				op.k = Op::SEND;
				op.call = draw_send(dp, true);
				if (hot && !op.call.p1.empty())
					for (auto &b : op.call.p1) b = (b & 1) ? 0xFE : 0xFD;
				const SendFn &f = send_table()[(size_t) op.call.fn];
				if (!strcmp(f.name, "bidib_send_accessory_para_set_macromap") && !op.call.p1.empty()) op.call.p1.back() = 0xFF;
				if (ctx.excl("c18-configx-halfcopy") && !strcmp(f.name, "bidib_send_lc_configx_set")) continue;
				if (ctx.excl("c18-fwdata-len128") && !strcmp(f.name, "bidib_send_fw_update_op_data") &&
				    op.call.p1.size() > 120) op.call.p1.resize(120);
				int rs = ref::RESP[f.type & 0x7f].size;
				// re-address until the node's cumulative budget has room
				int guard = 0;
				bool fixed_addr = !strcmp(f.name, "bidib_send_sys_enable") || !strcmp(f.name, "bidib_send_sys_disable");
				if (deferred_mode) {
					// few nodes, so that budgets overflow; sys_enable/disable (broadcast semantics) stay out of this mode
					if (fixed_addr) continue;
					if (dp.chance(110)) {
						// long messages: two of them never fit one packet, so every "does it still fit" decision matters
						static const char *BIG[] = {"bidib_send_string_set", "bidib_send_vendor_set", "bidib_send_vendor_get", "bidib_send_fw_update_op_data"};
						const char *want = BIG[dp.pick(4)];
						for (size_t q = 0; q < send_table().size(); q++)
							if (!strcmp(send_table()[q].name, want)) {
								op.call = draw_send(dp, true, (int) q);
								size_t len = (size_t) dp.range(30, 52);
								if (!strcmp(want, "bidib_send_vendor_set")) { op.call.p1 = dp.bytes(len / 2, true); op.call.p2 = dp.bytes(len - len / 2, true); }
								else op.call.p1 = dp.bytes(len, true);
							}
					}
					const SendFn &f2 = send_table()[(size_t) op.call.fn];
					op.call.addr = {(uint8_t) (1 + dp.pick(3))};
					node_types[key(op.call.addr)].insert(f2.type);
					total_sends++;
					break;
				}
				while (budget[key(op.call.addr)] + rs > 48 && guard++ < 600) {
					if (fixed_addr) break;
					ctx.count("readdressed");
					if (op.call.addr.empty()) op.call.addr.push_back(1);
					else {
						size_t j = op.call.addr.size() - 1;
						op.call.addr[j] = (uint8_t) (op.call.addr[j] == 255 ? 1 : op.call.addr[j] + 1);
						if (guard % 200 == 0 && op.call.addr.size() < 3) op.call.addr.push_back(1);
					}
				}
				if (budget[key(op.call.addr)] + rs > 48) continue;
				budget[key(op.call.addr)] += rs;
				total_sends++;
				break;
			}
			case 1: op.k = Op::FLUSH; break;
			case 2: op.k = Op::ADV; op.val = (unsigned) dp.range(0, 60) * 1000; break;
			case 4: op.k = Op::ANS; break;
			default: op.k = Op::CAP; op.val = dp.chance(128) ? dp.u8() : (uint8_t) (60 + dp.pick(12) * 17); break;
			}
			plans[t].ops.push_back(op);
		}
	}
	for (unsigned t = 0; t < nthreads; t++) {
		ctx.desc << " thread " << t << ":";
		for (auto &op : plans[t].ops) {
			switch (op.k) {
			case Op::SEND: ctx.desc << "\n   " << op.call.text(); break;
			case Op::FLUSH: ctx.desc << "\n   flush"; break;
			case Op::ADV: ctx.desc << "\n   sleep " << op.val << "us"; break;
			case Op::CAP: ctx.desc << "\n   rx PKT_CAPACITY " << op.val; break;
			case Op::ANS: ctx.desc << "\n   rx answers (release deferred messages)"; break;
			}
		}
		ctx.desc << "\n";
	}

	size_t wire0 = 0;          // the wire is judged from here on (behind the start-up dialogue of a normal-mode session)
	if (live_capacity) {
		if (n.start(fi) != 0) ctx.fail("START: valid one-board configuration rejected");
		s.settle();
		n.bus.silent = true;
		Session::drain_messages();
		Session::drain_errors();
		wire0 = s.down.size();
	} else if (s.start_debug(fi) != 0) ctx.fail("START: debug-mode start returned non-zero");

	// thread 0 = harness thread (runs its plan inline so that capacity announcements can be
	// injected and settled); the others are application threads
	std::vector<pthread_t> th(nthreads);
	for (unsigned t = 1; t < nthreads; t++) vf_pthread_create(&th[t], nullptr, thread_main, &plans[t]);
	std::vector<std::pair<size_t, unsigned>> cap_events;    // (downlink offset at announcement, capacity)
	std::vector<size_t> cap_settled;                        // downlink offset once the announcement has surely been processed
	// one uplink message per (node, answer type of a request type sent to it): credits whatever is outstanding
	auto inject_answers = [&]() {
		for (auto &kv : node_types)
			for (uint8_t rt : kv.second) {
				const ref::RespInfo &ri = ref::RESP[rt & 0x7f];
				if (ri.n < 2) continue;
				ref::Msg m;
				m.addr = ref::Bytes(kv.first.begin(), kv.first.end());
				m.type = ri.ans[0];
				m.seq = 0;
				m.data = {0, 0, 0};
				s.inject_packet({m});
			}
	};
	for (auto &op : plans[0].ops) {
		switch (op.k) {
		case Op::ANS: inject_answers(); break;
		case Op::SEND: do_send(op.call); break;
		case Op::FLUSH: bidib_flush(); break;
		case Op::ADV: s.advance(op.val); break;
		case Op::CAP: {
			ref::Msg m;
			m.type = M::PKT_CAPACITY;
			m.seq = s.next_up_seq({});
			m.data = {(uint8_t) op.val};
			cap_events.emplace_back(s.down.size() - wire0, op.val);
			s.inject_packet({m});
			s.settle();
			cap_settled.push_back(s.down.size() - wire0);
			break;
		}
		}
	}
	for (unsigned t = 1; t < nthreads; t++) vf_pthread_join(th[t], nullptr);
	bidib_flush();
	s.settle();
	if (deferred_mode) {
		// answer / expire until nothing more comes out
		size_t last = 0;
		int calm = 0;
		for (int round = 0; round < 200 && calm < 4; round++) {
			inject_answers();
			s.settle();
			bidib_flush();
			if (round % 8 == 7) s.advance(2100000);
			if (s.down.size() == last) calm++; else calm = 0;
			last = s.down.size();
		}
		Session::drain_messages();
	}
	ref::Bytes wire = s.since(wire0);
	unsigned preempt = vf_preemptions_taken();

	// (1) well-formed packet stream
	ref::StreamDecode dec = ref::decode_strict(wire);
	if (!dec.error.empty())
		ctx.fail("FRAMING: downlink bytes are not a sequence of well-formed packets: " + dec.error + " wire=" + hex(wire));

	// (2) exactly the messages of the calls, byte-identical except the sequence byte
	std::vector<ref::Msg> expect, got;
	std::map<std::string, std::vector<std::vector<ref::Msg>>> per_node_thread;
	for (unsigned t = 0; t < nthreads; t++)
		for (auto &op : plans[t].ops)
			if (op.k == Op::SEND) {
				ref::Msg m = expected_msg(op.call, nullptr, nullptr);
				expect.push_back(m);
				auto &v = per_node_thread[key(m.addr)];
				v.resize(nthreads);
				v[t].push_back(m);
			}
	size_t escapes = 0, crc_esc = 0, big_image = 0, multi = 0;
	for (auto &p : dec.packets) {
		for (auto &m : p.msgs) got.push_back(m);
		escapes += p.escaped;
		crc_esc += p.crc_escaped;
		if (p.end - p.start > 312) big_image++;
		if (p.msgs.size() > 1) multi++;
	}
	auto canon = [](const ref::Msg &m) {
		ref::Msg c = m;
		c.seq = 0;
		return ref::encode_msg(c);
	};
	{
		std::vector<ref::Bytes> a, b;
		for (auto &m : expect) a.push_back(canon(m));
		for (auto &m : got) b.push_back(canon(m));
		std::sort(a.begin(), a.end());
		std::sort(b.begin(), b.end());
		if (a != b) {
			std::string d;
			std::vector<ref::Bytes> miss, extra;
			std::set_difference(a.begin(), a.end(), b.begin(), b.end(), std::back_inserter(miss));
			std::set_difference(b.begin(), b.end(), a.begin(), a.end(), std::back_inserter(extra));
			for (auto &x : miss) d += " missing/changed:" + hex(x);
			for (auto &x : extra) d += " unexpected:" + hex(x);
			ctx.fail("MESSAGES: wire messages differ from the encodings of the calls (" +
			         std::to_string(expect.size()) + " calls, " + std::to_string(got.size()) + " on wire):" + d);
		}
	}
	// (3) per node: wire order is an interleaving of the per-thread call orders
	bool gave_up = false;
	for (auto &kv : per_node_thread) {
		std::vector<ref::Msg> w;
		for (auto &m : got)
			if (key(m.addr) == kv.first) w.push_back(m);
		if (!is_interleaving(w, kv.second, gave_up))
			ctx.fail("ORDER: messages to node " + hex((const uint8_t *) kv.first.data(), kv.first.size()) +
			         " are not in per-thread call order on the wire");
	}
	if (gave_up) ctx.count("order-check-gave-up");
	// (4) capacity of multi-message packets
	for (auto &p : dec.packets) {
		if (p.msgs.size() < 2) continue;
		unsigned cap = 64;
		if (!live_capacity) {
			// debug mode: announcements are not evaluated today (64 stays in force); an implementation that did evaluate them
			// would still satisfy the property, so the bound is the largest capacity announced so far
			for (auto &ce : cap_events)
				if (ce.first <= p.end && ce.second > cap) cap = ce.second;
		} else {
			// normal mode: the capacity in force while the packet was filled. The packet was filled between the end of the
			// previous packet (p.start) and p.end. An announcement counts from the moment it is injected; it stops counting once
			// its successor has surely been processed (settled) before the packet began. Values up to 64 mean 64.
			cap = 0;
			for (size_t i = 0; i <= cap_events.size(); i++) {
				// i == 0: the capacity of the start (64); i >= 1: announcement i-1
				unsigned eff = i == 0 ? 64 : (cap_events[i - 1].second <= 64 ? 64 : cap_events[i - 1].second);
				bool announced = i == 0 || cap_events[i - 1].first <= p.end;
				bool superseded = i < cap_events.size() && cap_settled[i] < p.start;      // strictly: at equal offsets the successor may have arrived while this packet was already being filled
				if (announced && !superseded && eff > cap) cap = eff;
			}
		}
		if (p.payload.size() > cap)
			ctx.fail("CAPACITY: packet with " + std::to_string(p.msgs.size()) + " messages has " + std::to_string(p.payload.size()) + " payload bytes, " +
			         (live_capacity ? "capacity in force while it was filled " : "largest capacity announced ") + std::to_string(cap));
	}

	s.stop();
	std::string an = lifecycle_anomalies(true);
	if (!an.empty()) ctx.fail("LIFECYCLE: " + an);

	bool capnt = false;
	for (auto &ce : cap_events)
		if (ce.second > 64) capnt = true;
	if (escapes) ctx.tag("escaped-payload-byte");
	if (crc_esc) ctx.tag("escaped-crc");
	if (big_image) ctx.tag("image>312");
	if (capnt) ctx.tag("capacity>64");
	if (live_capacity) ctx.tag("normal-mode(live capacity)");
	if (live_capacity && capnt) ctx.tag("live capacity>64");
	if (multi) ctx.tag("multi-message-packet");
	if (nthreads > 1 && preempt) ctx.tag("threads+preemption");
	if (deferred_mode) ctx.tag(nthreads > 1 ? "deferred-release-racing-senders" : "deferred-release");
	ctx.count("sends", total_sends);
	ctx.count("packets", (long) dec.packets.size());
	ctx.nontrivial = total_sends > 0 && (escapes || crc_esc || big_image || capnt || (nthreads > 1 && preempt));
	ctx.hash_src = hex(wire);
}

PropReg reg({"C01", prop,
             "non-trivial: the case's wire image contains an escaped payload byte or an escaped CRC, or a packet "
             "whose escaped image exceeds the 312-byte staging buffer, or a capacity > 64 was announced, or >=2 "
             "threads sent with >=1 honoured preemption; distinct = distinct wire images",
             700, 60, false});

}  // namespace
