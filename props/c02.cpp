// C02 — Uplink decoding: good packets delivered in order once, bad-CRC packets dropped.
//
// Domain: debug-mode session (every message except STALL surfaces through bidib_read_message).
// Mode A: a generated list of packets of 1..8 well-formed messages (any type but MSG_STALL,
// address depth 0..3, arbitrary data incl. FE/FD, arbitrary sequence numbers) interleaved
// with fault fragments constructed to have a wrong CRC: bit flips, dropped / inserted bytes,
// truncation (tail incl. closing delimiter lost), garbage between delimiters; extra
// delimiters; garbage before the first delimiter; generated chunking (read polls that
// return "no data" at generated stream positions).
// Mode B (round trip): the library's own sender output for generated calls is fed back.
// Oracle: the messages returned by bidib_read_message equal, in order and byte for byte,
// the messages of exactly the intact packets; the error queue stays empty.
#include "harness/vf.hpp"
#include "harness/sends.hpp"
#include "harness/bidib_cxx.h"
#include "ref/msgs.hpp"
#include "ref/resp.hpp"
#include <cstring>
#include <algorithm>

using namespace vf;

namespace {

ref::Msg draw_msg(DP &dp, bool &odd_seq, std::map<std::string, uint8_t> &seqs) {
	ref::Msg m;
	m.addr = draw_addr(dp, 3, true);
	do { m.type = dp.chance(200) ? (uint8_t) (0x80 | dp.u8()) : dp.u8(); } while (m.type == M::STALL);
	size_t n = dp.weighted({3, 6, 2, 1}) == 0 ? 0 : (size_t) dp.range(1, dp.chance(40) ? 40 : 9);
	m.data = dp.bytes(n, true);
	std::string k(m.addr.begin(), m.addr.end());
	uint8_t &s = seqs[k];
	s = (s == 255 || s == 0) ? 1 : (uint8_t) (s + 1);
	if (dp.chance(40)) {
		m.seq = dp.u8();          // unexpected number (incl. 0 = numbering off, repeats, gaps)
		odd_seq = true;
		if (m.seq) s = m.seq;
	} else m.seq = s;
	return m;
}

// unescaped fragment (payload||crc style bytes) -> escaped bytes without delimiters
ref::Bytes escape_all(const ref::Bytes &raw) {
	ref::Bytes o;
	for (uint8_t b : raw) ref::put_escaped(o, b);
	return o;
}

bool crc_zero(const ref::Bytes &raw) {
	uint8_t c = 0;
	for (uint8_t b : raw) c = ref::crc8_step(c, b);
	return c == 0;
}

void prop(DP &dp, const ref::Bytes &sched, Ctx &ctx) {
	Session s;
	s.world(sched);
	if (s.start_debug(0) != 0) ctx.fail("START: debug-mode start returned non-zero");
	bool roundtrip = dp.chance(56);
	std::vector<ref::Bytes> expect;             // expected message byte images, in order
	ref::Bytes stream;
	std::vector<size_t> group_ends;             // stream offsets after which the harness drains
	bool nt_fault_between = false, nt_escape = false, nt_crcesc = false, nt_multi = false, odd_seq = false;
	unsigned faults = 0, good = 0;

	if (roundtrip) {
		ctx.desc << "C02 round trip (sender output fed back)\n";
		std::map<std::string, int> budget;
		unsigned n = (unsigned) dp.range(1, 30);
		std::vector<SendCall> calls;
		for (unsigned i = 0; i < n; i++) {
			SendCall c = draw_send(dp, true);
			const SendFn &f = send_table()[(size_t) c.fn];
			if (ctx.excl("c18-configx-halfcopy") && !strcmp(f.name, "bidib_send_lc_configx_set")) continue;
			int rs = ref::RESP[f.type & 0x7f].size;
			std::string k(c.addr.begin(), c.addr.end());
			if (budget[k] + rs > 48) continue;
			budget[k] += rs;
			calls.push_back(c);
			ctx.desc << "  " << c.text() << "\n";
			do_send(c);
			if (dp.chance(60)) bidib_flush();
		}
		bidib_flush();
		stream = s.down;
		ref::StreamDecode d = ref::decode_strict(stream);
		if (!d.error.empty()) ctx.fail("FRAMING(sender): " + d.error);
		// what the peer encoded = the reference encoding of the calls, with the sequence
		// numbers the sender put on the wire
		std::vector<ref::Msg> wire;
		for (auto &p : d.packets) {
			for (auto &m : p.msgs) wire.push_back(m);
			if (p.escaped) nt_escape = true;
			if (p.crc_escaped) nt_crcesc = true;
			if (p.msgs.size() > 1) nt_multi = true;
		}
		if (wire.size() != calls.size()) ctx.fail("ROUNDTRIP: sender put " + std::to_string(wire.size()) + " messages on the wire for " + std::to_string(calls.size()) + " calls");
		for (size_t i = 0; i < calls.size(); i++) {
			ref::Msg e = expected_msg(calls[i], nullptr, nullptr);
			// per-node order = call order in a single thread; find by position
			e.seq = wire[i].seq;
			expect.push_back(ref::encode_msg(e));
		}
		good = (unsigned) calls.size();
		group_ends.push_back(stream.size());
	} else {
		ctx.desc << "C02 generated stream\n";
		std::map<std::string, uint8_t> seqs;
		if (dp.chance(80)) {
			ref::Bytes g = dp.bytes((size_t) dp.range(1, 12), true);
			for (auto &b : g) if (b == 0xFE) b = 0x7E;
			if (!g.empty() && g.back() == 0xFD) g.back() = 0x7D;
			stream.insert(stream.end(), g.begin(), g.end());
			ctx.desc << "  garbage before first delimiter: " << hex(g) << "\n";
		}
		unsigned npk = (unsigned) dp.range(1, 40);
		unsigned msgs_in_group = 0;
		bool last_was_fault = false, seen_good = false, pending_fault_after_good = false;
		for (unsigned i = 0; i < npk && (i == 0 || dp.more()); i++) {
			unsigned kind = dp.weighted({10, 2, 2, 1, 1, 1, 2});   // 0 good, 1 bitflip, 2 drop/insert, 3 truncate, 4 garbage, 5 extra delimiters, 6 cut behind an escape byte
			if (kind == 5) {
				unsigned k = (unsigned) dp.range(1, 3);
				for (unsigned j = 0; j < k; j++) stream.push_back(0xFE);
				ctx.desc << "  " << k << " extra delimiter(s)\n";
				continue;
			}
			// build a good packet first
			unsigned nm = 1 + dp.weighted({6, 2, 1, 1, 1, 1, 1, 1});
			std::vector<ref::Msg> ms;
			ref::Bytes pl;
			bool odd_here = false;
			std::map<std::string, uint8_t> seqs_backup = seqs;
			for (unsigned j = 0; j < nm; j++) {
				ref::Msg m = draw_msg(dp, odd_here, seqs);
				ref::Bytes e = ref::encode_msg(m);
				if (pl.size() + e.size() > 250) break;
				pl.insert(pl.end(), e.begin(), e.end());
				ms.push_back(m);
			}
			if (ms.empty()) continue;
			ref::Bytes raw = pl;
			raw.push_back(ref::crc8(pl));
			if (kind == 0) {
				ref::Bytes f = ref::frame(pl);
				stream.insert(stream.end(), f.begin(), f.end());
				for (auto &m : ms) expect.push_back(ref::encode_msg(m));
				good++;
				msgs_in_group += (unsigned) ms.size();
				for (uint8_t b : raw) if (b == 0xFE || b == 0xFD) nt_escape = true;
				if (raw.back() == 0xFE || raw.back() == 0xFD) nt_crcesc = true;
				if (ms.size() > 1) nt_multi = true;
				odd_seq |= odd_here;
				if (pending_fault_after_good) nt_fault_between = true;
				seen_good = true;
				last_was_fault = false;
				pending_fault_after_good = false;
				ctx.desc << "  good packet:";
				for (auto &m : ms) ctx.desc << " " << ref::show(m);
				ctx.desc << "\n";
			} else {
				seqs = seqs_backup;    // the faulted packet is never seen by the receiver's numbering
				const char *what = "";
				bool closed = true, cut_after_escape = false;
				if (kind == 1) {
					size_t pos = dp.pick((unsigned) raw.size());
					raw[pos] ^= (uint8_t) (1u << dp.pick(8));
					what = "bit flip";
				} else if (kind == 2) {
					if (dp.flag() && raw.size() > 2) { raw.erase(raw.begin() + (long) dp.pick((unsigned) raw.size())); what = "byte dropped"; }
					else { raw.insert(raw.begin() + (long) dp.pick((unsigned) raw.size() + 1), dp.spicy()); what = "byte inserted"; }
				} else if (kind == 3) {
					size_t keep = 1 + dp.pick((unsigned) raw.size() - 1);
					raw.resize(keep);
					closed = false;
					what = "truncated (closing delimiter lost)";
				} else if (kind == 6) {
					// the wire image is cut directly behind an escape byte (its partner and everything after it lost): the
					// following delimiter must still be taken as a delimiter - 0xFE never occurs inside a packet
					size_t keep = dp.pick((unsigned) raw.size());
					raw.resize(keep);
					closed = dp.chance(60);
					cut_after_escape = true;
					what = "cut behind an escape byte";
				} else {
					raw = dp.bytes((size_t) dp.range(1, 30), true);
					what = "garbage fragment";
				}
				if (raw.size() > 250) raw.resize(250);
				// construction: the fragment must fail the CRC check
				int guard = 0;
				while (!raw.empty() && crc_zero(raw) && guard++ < 8) raw[raw.size() - 1] ^= 0x01;
				ref::Bytes f;
				f.push_back(0xFE);
				ref::Bytes e = escape_all(raw);
				f.insert(f.end(), e.begin(), e.end());
				if (cut_after_escape) { f.push_back(0xFD); ctx.tag("cut-behind-escape-byte"); }
				if (closed) f.push_back(0xFE);
				stream.insert(stream.end(), f.begin(), f.end());
				faults++;
				if (seen_good) pending_fault_after_good = true;
				last_was_fault = true;
				ctx.desc << "  FAULT " << what << ": " << hex(raw) << "\n";
			}
			if (msgs_in_group > 90) { group_ends.push_back(stream.size()); msgs_in_group = 0; }
		}
		(void) last_was_fault;
		// the stream must end with a delimiter so that the last (possibly truncated) fragment is closed
		stream.push_back(0xFE);
		group_ends.push_back(stream.size());
	}

	// chunking: generated positions at which the read callback reports "no data" for a while
	std::vector<std::pair<size_t, unsigned>> pauses;
	unsigned np = (unsigned) dp.range(0, 6);
	for (unsigned i = 0; i < np && !stream.empty(); i++) pauses.emplace_back(dp.pick((unsigned) stream.size()), (unsigned) dp.range(1, 30) * 1000);
	std::sort(pauses.begin(), pauses.end());
	ctx.desc << "  stream " << stream.size() << " bytes, " << pauses.size() << " pauses\n";

	std::vector<ref::Bytes> gotm;
	size_t pos = 0;
	for (size_t ge : group_ends) {
		uint64_t delay = 0;
		size_t pi = 0;
		while (pos < ge) {
			size_t nxt = ge;
			while (pi < pauses.size() && pauses[pi].first <= pos) pi++;
			if (pi < pauses.size() && pauses[pi].first < ge) nxt = pauses[pi].first;
			s.inject(ref::Bytes(stream.begin() + (long) pos, stream.begin() + (long) nxt), delay);
			if (pi < pauses.size() && pauses[pi].first == nxt) { delay += pauses[pi].second; pi++; }
			pos = nxt;
		}
		s.settle(2);
		auto part = Session::drain_messages();
		gotm.insert(gotm.end(), part.begin(), part.end());
	}
	auto errs = Session::drain_errors();
	if (!errs.empty()) ctx.fail("ERROR-QUEUE: debug mode put " + std::to_string(errs.size()) + " messages into the error queue, first " + hex(errs[0]));
	if (gotm != expect) {
		size_t i = 0;
		while (i < gotm.size() && i < expect.size() && gotm[i] == expect[i]) i++;
		std::string d = "first difference at message " + std::to_string(i) + ": got " +
		                (i < gotm.size() ? hex(gotm[i]) : "(nothing)") + ", expected " + (i < expect.size() ? hex(expect[i]) : "(nothing)");
		ctx.fail("DECODE: delivered " + std::to_string(gotm.size()) + " messages, the intact packets hold " +
		         std::to_string(expect.size()) + "; " + d);
	}
	s.stop();
	std::string an = lifecycle_anomalies(true);
	if (!an.empty()) ctx.fail("LIFECYCLE: " + an);
	if (nt_fault_between) ctx.tag("fault-between-good-packets");
	if (nt_escape) ctx.tag("escaped-byte-in-good-packet");
	if (nt_crcesc) ctx.tag("escaped-crc");
	if (nt_multi) ctx.tag("multi-message-packet");
	if (odd_seq) ctx.tag("unexpected-sequence-number");
	if (roundtrip) ctx.tag("round-trip");
	if (!pauses.empty()) ctx.tag("chunked");
	ctx.count("good-packets", good);
	ctx.count("fault-fragments", faults);
	ctx.nontrivial = good > 0 && (nt_fault_between || nt_escape || nt_crcesc || nt_multi || odd_seq);
	ctx.hash_src = hex(stream);
}

PropReg reg({"C02", prop,
             "non-trivial: the stream has >=1 faulted fragment between two good packets, or >=1 escaped byte in a good "
             "packet, or an escaped CRC, or >=1 multi-message packet, or >=1 unexpected sequence number; distinct = distinct byte streams",
             1200, 0, false});

}  // namespace
