// C05 — Per-node sequence numbers are consecutive in wire order under any interleaving.
//
// Domain: debug-mode session; 2..6 application threads sending generated lists of messages
// (with and without data bytes: the library has one constructor for each) to shared and private nodes
// (zero-response messages and requests that exhaust the
// response budget, so that some messages are deferred and later released by the receiver
// thread when the harness injects the answers); optional single-threaded prologue that puts
// a node's counter just below the 255 -> 1 wrap; auto-flush or explicit flushes; generated
// schedule (explicit preemption list or seeded random preemption).
// Oracle: decode the wire with the reference decoder; for every destination node the
// sequence bytes in wire order are 1,2,...,255,1,...; 0 never appears (numbering is on).
#include "harness/vf.hpp"
#include "harness/sends.hpp"
#include "harness/bidib_cxx.h"
#include "ref/msgs.hpp"
#include <cstring>

using namespace vf;

namespace {

struct Snd {
	uint8_t node;     // index into nodes
	uint8_t kind;     // 0 mirror_occ (no response), 1 sys_ping (response 5), 2 node_changed_ack, 3 flush, 4 cs_allocate / boost_query (no data bytes)
	uint8_t val;
};
struct Plan {
	std::vector<Snd> ops;
	const std::vector<ref::Bytes> *nodes;
	int *done;
};

t_bidib_node_address na_of(const ref::Bytes &a) {
	t_bidib_node_address n = {0, 0, 0};
	if (a.size() > 0) n.top = a[0];
	if (a.size() > 1) n.sub = a[1];
	if (a.size() > 2) n.subsub = a[2];
	return n;
}

void run_op(const Snd &o, const std::vector<ref::Bytes> &nodes) {
	t_bidib_node_address n = na_of(nodes[o.node]);
	switch (o.kind) {
	case 0: bidib_send_bm_mirror_occ(n, o.val, 0); break;
	case 1: bidib_send_sys_ping(n, o.val, 0); break;
	case 2: bidib_send_node_changed_ack(n, o.val, 0); break;
	case 4: if (o.val & 1) bidib_send_cs_allocate(n, 0); else bidib_send_boost_query(n, 0); break;      // the constructor without data bytes (no response / response 5)
	default: bidib_flush(); break;
	}
}

void *thread_main(void *arg) {
	Plan *p = (Plan *) arg;
	for (auto &o : p->ops) run_op(o, *p->nodes);
	(*p->done)++;
	return nullptr;
}

void prop(DP &dp, const ref::Bytes &sched, Ctx &ctx) {
	Session s;
	s.world(sched);
	unsigned nnodes = (unsigned) dp.range(1, 3);
	std::vector<ref::Bytes> nodes;
	for (unsigned i = 0; i < nnodes; i++) {
		ref::Bytes a;
		if (i == 0 && dp.chance(64)) { nodes.push_back(a); continue; }       // the interface itself
		unsigned depth = (unsigned) dp.range(1, 3);
		for (unsigned d = 0; d < depth; d++) a.push_back((uint8_t) (1 + i + 3 * d));
		nodes.push_back(a);
	}
	unsigned nthreads = (unsigned) dp.range(2, 6);
	unsigned prologue = dp.chance(90) ? (unsigned) dp.range(236, 254) : 0;
	unsigned fi = dp.chance(128) ? 1 : 0;
	ctx.desc << "C05 nodes=" << nnodes << " threads=" << nthreads << " prologue=" << prologue << " auto_flush=" << fi << "ms\n";
	int done = 0;
	std::vector<Plan> plans(nthreads);
	std::vector<std::set<unsigned>> node_threads(nnodes);
	unsigned total = 0;
	for (unsigned t = 0; t < nthreads; t++) {
		plans[t].nodes = &nodes;
		plans[t].done = &done;
		unsigned n = (unsigned) dp.range(3, 60);
		ctx.desc << " thread " << t << ":";
		for (unsigned i = 0; i < n; i++) {
			Snd o;
			o.node = (uint8_t) dp.pick(nnodes);
			o.kind = (uint8_t) dp.weighted({8, 5, 3, 1, 5});
			o.val = dp.u8();
			plans[t].ops.push_back(o);
			if (o.kind != 3) { node_threads[o.node].insert(t); total++; }
			ctx.desc << " " << "opafe"[o.kind] << (int) o.node;
		}
		ctx.desc << "\n";
	}
	if (s.start_debug(fi) != 0) ctx.fail("START: debug-mode start returned non-zero");
	for (unsigned i = 0; i < prologue; i++) {
		bidib_send_bm_mirror_occ(na_of(nodes[0]), (uint8_t) i, 0);
		if (i % 16 == 15) bidib_flush();
	}
	bidib_flush();
	std::vector<pthread_t> th(nthreads);
	for (unsigned t = 0; t < nthreads; t++) vf_pthread_create(&th[t], nullptr, thread_main, &plans[t]);
	// answer pings so that deferred messages are released by the receiver thread
	auto pongs = [&](unsigned k) {
		for (unsigned n = 0; n < nnodes; n++)
			for (unsigned j = 0; j < k; j++) {
				ref::Msg m;
				m.addr = nodes[n];
				m.type = M::SYS_PONG;
				m.seq = s.next_up_seq(nodes[n]);
				m.data = {0};
				s.inject_packet({m});
				if (j % 2 == 0) {      // and the answer to a boost query
					ref::Msg b;
					b.addr = nodes[n];
					b.type = M::BOOST_STAT;
					b.seq = s.next_up_seq(nodes[n]);
					b.data = {0};
					s.inject_packet({b});
				}
			}
	};
	int guard = 0;
	while (done < (int) nthreads && guard++ < 20000) {
		pongs(2);
		vf_usleep(1500);
	}
	if (done < (int) nthreads) ctx.fail("HANG: sender threads did not finish");
	for (unsigned t = 0; t < nthreads; t++) vf_pthread_join(th[t], nullptr);
	// release everything that is still deferred
	for (int r = 0; r < 80; r++) {
		size_t before = s.down.size();
		pongs(3);
		s.settle();
		bidib_flush();
		if (s.down.size() == before && r > 4) break;
	}
	unsigned preempt = vf_preemptions_taken();
	ref::StreamDecode dec = ref::decode_strict(s.down);
	if (!dec.error.empty()) ctx.fail("FRAMING: " + dec.error);
	std::map<std::string, std::vector<uint8_t>> seqs;
	size_t on_wire = 0;
	for (auto &p : dec.packets)
		for (auto &m : p.msgs) {
			seqs[std::string(m.addr.begin(), m.addr.end())].push_back(m.seq);
			on_wire++;
		}
	bool wrapped = false;
	for (auto &kv : seqs) {
		uint8_t expect = 1;
		for (size_t i = 0; i < kv.second.size(); i++) {
			if (kv.second[i] != expect) {
				std::string l;
				for (size_t j = (i > 6 ? i - 6 : 0); j < kv.second.size() && j < i + 6; j++) l += std::to_string(kv.second[j]) + (j == i ? "< " : " ");
				ctx.fail("SEQUENCE: messages to node " + hex((const uint8_t *) kv.first.data(), kv.first.size()) +
				         " carry non-consecutive sequence numbers in wire order: position " + std::to_string(i) +
				         " has " + std::to_string(kv.second[i]) + ", expected " + std::to_string(expect) + " (... " + l + "...)");
			}
			if (expect == 255) { expect = 1; wrapped = true; }
			else expect++;
		}
	}
	s.stop();
	std::string an = lifecycle_anomalies(true);
	if (!an.empty()) ctx.fail("LIFECYCLE: " + an);
	bool shared = false;
	for (auto &st : node_threads)
		if (st.size() >= 2) shared = true;
	ctx.nontrivial = shared && preempt > 0;
	if (ctx.nontrivial) ctx.tag("shared-node+preemption");
	if (wrapped) ctx.tag("wrap-255-to-1");
	if (on_wire < total + prologue) ctx.count("messages-still-deferred", (long) (total + prologue - on_wire));
	ctx.count("messages", (long) on_wire);
	ctx.count("preemptions", preempt);
	ctx.hash_src = ctx.desc.str() + hex(sched);
}

PropReg reg({"C05", prop,
             "non-trivial: >=2 threads sent to the same node and >=1 scheduler preemption was honoured; wrap-around cases "
             "tagged separately; distinct = distinct (thread plans, schedule)",
             500, 40, false});

}  // namespace
