// C06 — Each uplink message has exactly one destination; queues FIFO, bounded, once-only.
//
// Domain: normal-mode sessions (generated configuration, all boards on the bus, the bus silent
// after startup) and debug-mode sessions. Generated sequence of
//    msg(node, type, variant)   every uplink type code (the 58 named ones weighted up, any other code
//                               0..255 too), well-formed payloads (harness/traffic.hpp), error and
//                               non-error variants, from configured and unconfigured addresses
//    burst(type, k)             k up to 300 copies (distinct payload counters) to cross the 128 bound
//    read_msg(j) / read_err(j)  j reads at a generated point, compared with the model at once
// optionally followed by a phase with 1..3 reader threads racing the receiver (scheduler-owned
// interleaving) on histories that stay below the bound.
// Oracle: R-dispatch. The two user-queue lists are READ FROM /repo/README.md ("#### Error queue",
// "#### Message queue", "(only in case of an error)" = error variant only) - that table is the
// contract the statement names; the set of types consumed by state tracking and the types kept
// for the startup dialogue are transcribed from the statements of C06/C07/C15/C01/C04.
//   normal mode: tabulated type -> exactly that queue; error variant -> error queue, other
//     variant -> consumed; state-consumed / startup types -> in neither user queue (startup types
//     are found in the internal queue); any other type -> exactly one of the two user queues and
//     the same one every time.
//   debug mode: everything except STALL -> message queue, nothing in the error queue.
//   each queue: FIFO, at most 128 retained, oldest dropped on overflow, every returned buffer holds
//     exactly the received bytes (len+1 bytes are read and the buffer freed under ASan; LSan at
//     the end of the case), nothing returned twice; with reader threads the union of all results is
//     the model's multiset and every reader's sequence is in arrival order.
#include "harness/normal.hpp"
#include "harness/traffic.hpp"
#include "ref/msgs.hpp"
#include <cstring>
#include <fstream>
#include <algorithm>

using namespace vf;

namespace {

enum Dest { D_STATE, D_MSG, D_ERR, D_INTERN, D_EITHER };

struct NameCode { const char *name; uint8_t code; };
#define N(x) {"MSG_" #x, M::x}
const NameCode NAMES[] = {
    N(SYS_MAGIC), N(SYS_PONG), N(SYS_P_VERSION), N(SYS_UNIQUE_ID), N(SYS_SW_VERSION), N(SYS_ERROR), N(SYS_IDENTIFY_STATE),
    N(NODETAB_COUNT), N(NODETAB), N(PKT_CAPACITY), N(NODE_NA), N(NODE_LOST), N(NODE_NEW), N(STALL), N(FW_UPDATE_STAT),
    N(FEATURE), N(FEATURE_NA), N(FEATURE_COUNT), N(VENDOR), N(VENDOR_ACK), N(STRING),
    N(BM_OCC), N(BM_FREE), N(BM_MULTIPLE), N(BM_ADDRESS), N(BM_ACCESSORY), N(BM_CV), N(BM_SPEED), N(BM_CURRENT), N(BM_XPOM),
    N(BM_CONFIDENCE), N(BM_DYN_STATE), N(BM_RCPLUS), N(BM_POSITION),
    N(BOOST_STAT), N(BOOST_CURRENT), N(BOOST_DIAGNOSTIC),
    N(ACCESSORY_STATE), N(ACCESSORY_PARA), N(ACCESSORY_NOTIFY),
    N(LC_STAT), N(LC_NA), N(LC_CONFIG), N(LC_KEY), N(LC_WAIT), N(LC_CONFIGX), N(LC_MACRO_STATE), N(LC_MACRO), N(LC_MACRO_PARA),
    N(CS_STATE), N(CS_DRIVE_ACK), N(CS_ACCESSORY_ACK), N(CS_POM_ACK), N(CS_DRIVE_MANUAL), N(CS_DRIVE_EVENT), N(CS_ACCESSORY_MANUAL),
    N(CS_PROG_STATE), N(CS_RCPLUS_ACK),
};
#undef N
const size_t N_NAMES = sizeof NAMES / sizeof *NAMES;

// consumed by state tracking (statements of C07, C15, C01, C04, C19): never queued
const uint8_t STATE_TYPES[] = {
    M::BM_OCC, M::BM_FREE, M::BM_MULTIPLE, M::BM_ADDRESS, M::BM_CONFIDENCE, M::BM_CURRENT, M::BM_SPEED, M::BM_DYN_STATE,
    M::BOOST_DIAGNOSTIC, M::CS_STATE, M::LC_STAT, M::LC_WAIT, M::CS_ACCESSORY_MANUAL, M::CS_DRIVE_MANUAL, M::CS_DRIVE_ACK,
    M::CS_ACCESSORY_ACK, M::VENDOR, M::NODE_NEW, M::NODE_LOST, M::PKT_CAPACITY, M::STALL,
};
const uint8_t INTERN_TYPES[] = {M::SYS_MAGIC, M::NODETAB_COUNT, M::NODETAB, M::FEATURE_COUNT, M::FEATURE};

struct Table {
	std::map<uint8_t, bool> err;      // type -> only in case of an error
	std::set<uint8_t> msg;
	std::string problem;
};

// parses the two lists of the README's "Message handling" section
Table readme_table() {
	Table t;
	const char *repo = getenv("VERIF_REPO");
	std::string path = std::string(repo && *repo ? repo : "/repo") + "/README.md";
	std::ifstream f(path);
	if (!f) { t.problem = "cannot read " + path; return t; }
	std::string line;
	int section = 0;
	while (std::getline(f, line)) {
		if (line.rfind("#### Error queue", 0) == 0) { section = 1; continue; }
		if (line.rfind("#### Message queue", 0) == 0) { section = 2; continue; }
		if (line.rfind("#", 0) == 0) { section = 0; continue; }
		if (!section || line.rfind("* MSG_", 0) != 0) continue;
		std::string name = line.substr(2);
		size_t e = name.find_first_of(" \t\r");
		bool cond = line.find("only in case of an error") != std::string::npos;
		if (e != std::string::npos) name = name.substr(0, e);
		bool found = false;
		for (size_t i = 0; i < N_NAMES; i++)
			if (name == NAMES[i].name) {
				found = true;
				if (section == 1) t.err[NAMES[i].code] = cond;
				else t.msg.insert(NAMES[i].code);
			}
		if (!found) t.problem = "README lists unknown message name " + name;
	}
	if (t.err.empty() || t.msg.empty()) t.problem = "README has no 'Error queue' / 'Message queue' lists";
	return t;
}

bool in(const uint8_t *a, size_t n, uint8_t t) { return std::find(a, a + n, t) != a + n; }

struct Model {
	std::deque<ref::Bytes> q[3];       // 0 msg, 1 err, 2 intern
	unsigned long dropped[3] = {0, 0, 0};
	void add(int k, const ref::Bytes &b) {
		if (q[k].size() == 128) { q[k].pop_front(); dropped[k]++; }
		q[k].push_back(b);
	}
};

struct Reader {
	int which;            // 0 msg 1 err
	int reads;
	unsigned pause_us;
	std::vector<ref::Bytes> got;
	int *done;
};
void *reader_main(void *p) {
	Reader *r = (Reader *) p;
	for (int i = 0; i < r->reads; i++) {
		uint8_t *m = r->which == 0 ? bidib_read_message() : bidib_read_error_message();
		if (m) { r->got.emplace_back(m, m + m[0] + 1); free(m); }
		vf_usleep(r->pause_us);
	}
	(*r->done)++;
	return nullptr;
}

void prop(DP &dp, const ref::Bytes &sched, Ctx &ctx) {
	static Table tab = readme_table();
	if (!tab.problem.empty()) ctx.fail("README-TABLE: " + tab.problem);
	bool debug = dp.chance(80);
	Normal n;
	Session &s = n.s;
	std::vector<ref::Bytes> addrs;
	if (debug) {
		s.world(sched);
		ctx.desc << "C06 debug mode\n";
		if (s.start_debug(0) != 0) ctx.fail("START: debug-mode start failed");
		addrs = {{}, {1}, {2, 1}, {2, 1, 7}};
	} else {
		NormalOpts o;
		o.present_mode = 1;
		o.gen.max_boards = 3;
		n.prepare(dp, sched, o);
		ctx.desc << "C06 normal mode " << n.c.summary() << "\n bus: " << n.bus.describe() << "\n";
		if (n.start(0) != 0) ctx.fail("START: valid configuration rejected");
		s.settle();
		n.bus.silent = true;
		for (auto &bn : n.bus.nodes) addrs.push_back(bn.addr);
		addrs.push_back({0x63});          // nobody there
	}
	Session::drain_messages();
	Session::drain_errors();
	Session::drain_intern();

	Model M_;
	std::map<uint8_t, int> either_choice;       // untabulated type -> queue it went to the first time
	std::set<uint8_t> types_seen;
	bool crossed = false, pair_seen = false;
	std::map<uint8_t, int> variants;            // type -> bitmask of variants seen
	unsigned long counter = 0;
	const char *QN[] = {"message queue", "error queue", "internal queue"};

	auto expected = [&](const ref::Msg &m, bool is_error) -> Dest {
		if (debug) return m.type == M::STALL ? D_STATE : D_MSG;
		auto e = tab.err.find(m.type);
		if (e != tab.err.end()) return (!e->second || is_error) ? D_ERR : D_STATE;
		if (m.type == M::VENDOR && tab.msg.count(m.type)) {
			// content decides: the state report of a configured reverser (vendor key = its CV) is consumed by
			// state tracking, every other vendor answer is a "remaining message" of the README table
			if (!m.data.empty() && (size_t) m.data[0] + 1 <= m.data.size()) {
				std::string name(m.data.begin() + 1, m.data.begin() + 1 + m.data[0]);
				for (auto &bn : n.bus.nodes)
					if (bn.addr == m.addr && !bn.board_id.empty())
						if (const cfg::Board *b = n.c.board(bn.board_id))
							if (b->in_track)
								for (auto &r : b->reversers)
									if (r.cv == name) return D_STATE;
			}
			return D_MSG;
		}
		if (tab.msg.count(m.type)) return D_MSG;
		if (in(STATE_TYPES, sizeof STATE_TYPES, m.type)) return D_STATE;
		if (in(INTERN_TYPES, sizeof INTERN_TYPES, m.type)) return D_INTERN;
		return D_EITHER;
	};
	auto read_check = [&](int k, int j) {
		for (int i = 0; i < j; i++) {
			uint8_t *m = k == 0 ? bidib_read_message() : k == 1 ? bidib_read_error_message() : bidib_read_intern_message();
			if (M_.q[k].empty()) {
				if (m) {
					ref::Bytes got(m, m + m[0] + 1);
					free(m);
					ctx.fail(std::string("UNEXPECTED: ") + QN[k] + " returned " + hex(got) + " but the model's queue is empty (wrong destination, or a message returned twice)");
				}
				continue;
			}
			if (!m) ctx.fail(std::string("MISSING: ") + QN[k] + " is empty but the model still holds " + std::to_string(M_.q[k].size()) + " message(s), oldest " + hex(M_.q[k].front()));
			ref::Bytes got(m, m + m[0] + 1);
			free(m);
			if (got != M_.q[k].front())
				ctx.fail(std::string("ORDER/CONTENT: ") + QN[k] + " returned " + hex(got) + " but the oldest retained message is " + hex(M_.q[k].front()) +
				         " (dropped so far " + std::to_string(M_.dropped[k]) + ")");
			M_.q[k].pop_front();
		}
	};
	// injects one message and routes it in the model; `probe` = drain afterwards to learn an "either" destination
	auto feed = [&](ref::Msg m, bool is_error) {
		ref::Bytes enc = ref::encode_msg(m);
		Dest d = expected(m, is_error);
		types_seen.insert(m.type);
		if (traffic::has_error_variant(m.type)) {
			variants[m.type] |= is_error ? 2 : 1;
			if (variants[m.type] == 3) pair_seen = true;
		}
		if (d == D_EITHER) {
			// learn / confirm the destination of an untabulated type: first empty both user queues (checked against the model)
			s.settle();
			read_check(0, (int) M_.q[0].size());
			read_check(1, (int) M_.q[1].size());
			s.inject(ref::frame(enc));
			s.settle();
			uint8_t *a = bidib_read_message(), *b = bidib_read_error_message();
			int where = a && !b ? 0 : (!a && b ? 1 : -1);
			ref::Bytes ga, gb;
			if (a) { ga.assign(a, a + a[0] + 1); free(a); }
			if (b) { gb.assign(b, b + b[0] + 1); free(b); }
			if (where < 0) ctx.fail("ONE-DESTINATION: message " + hex(enc) + " of a type that is neither tabulated nor consumed by state tracking was " +
			                        (a && b ? "put into BOTH user queues" : "put into NEITHER user queue"));
			if ((where == 0 ? ga : gb) != enc) ctx.fail("CONTENT: " + std::string(QN[where]) + " returned " + hex(where == 0 ? ga : gb) + " for received " + hex(enc));
			auto it = either_choice.find(m.type);
			if (it != either_choice.end() && it->second != where) ctx.fail("ONE-DESTINATION: type " + hex(&m.type, 1) + " went to the " + QN[it->second] + " before and to the " + QN[where] + " now");
			either_choice[m.type] = where;
			return;
		}
		s.inject(ref::frame(enc));
		if (d == D_MSG) M_.add(0, enc);
		else if (d == D_ERR) M_.add(1, enc);
		else if (d == D_INTERN) M_.add(2, enc);
		if (M_.dropped[0] + M_.dropped[1] + M_.dropped[2] > 0) crossed = true;
	};
	auto draw_msg = [&](uint8_t forced_type, bool force) {
		ref::Msg m;
		m.addr = addrs[dp.pick((unsigned) addrs.size())];
		m.seq = dp.chance(30) ? 0 : (uint8_t) dp.range(1, 255);
		m.type = force ? forced_type : (dp.chance(215) ? NAMES[dp.pick((unsigned) N_NAMES)].code : dp.u8());
		return m;
	};

	unsigned nitems = (unsigned) dp.range(1, 45);
	for (unsigned i = 0; i < nitems && (i < 2 || dp.more()); i++) {
		unsigned kind = dp.weighted({14, 2, 4, 3, 3});
		if (kind == 4) {
			// both variants of one type, in generated order
			static const uint8_t VT[] = {M::ACCESSORY_STATE, M::ACCESSORY_NOTIFY, M::BOOST_STAT, M::CS_DRIVE_EVENT};
			uint8_t t = VT[dp.pick(sizeof VT)];
			bool first_err = dp.flag();
			for (int v = 0; v < 2; v++) {
				ref::Msg m = draw_msg(t, true);
				traffic::Hints h;
				h.force_variant = true;
				h.error_variant = (v == 0) == first_err;
				bool is_err = false;
				m.data = traffic::valid_payload(dp, t, h, &is_err);
				ctx.desc << "  rx " << ref::show(m) << (is_err ? " [error variant]" : " [non-error variant]") << "\n";
				feed(m, is_err);
			}
		} else if (kind == 0) {
			ref::Msg m = draw_msg(0, false);
			bool is_err = false;
			traffic::Hints h;
			m.data = traffic::valid_payload(dp, m.type, h, &is_err);
			if (m.type == M::VENDOR && !debug && dp.chance(150)) {
				// the state report of a configured reverser
				for (auto &bn : n.bus.nodes)
					if (bn.addr == m.addr && !bn.board_id.empty())
						if (const cfg::Board *b = n.c.board(bn.board_id))
							if (b->in_track && !b->reversers.empty()) {
								const std::string &cv = b->reversers[dp.pick((unsigned) b->reversers.size())].cv;
								m.data = {(uint8_t) cv.size()};
								m.data.insert(m.data.end(), cv.begin(), cv.end());
								m.data.push_back(1);
								m.data.push_back((uint8_t) ('0' + dp.pick(4)));
								ctx.tag("vendor-reverser-report");
							}
			}
			// a node-table notice changes which boards are connected but never where a message goes
			ctx.desc << "  rx " << ref::show(m) << (is_err ? " [error variant]" : "") << "\n";
			feed(m, is_err);
		} else if (kind == 1) {
			// burst of one queue-bound type with distinguishable payloads
			static const uint8_t BT[] = {M::SYS_PONG, M::BM_CV, M::SYS_ERROR, M::LC_NA, M::STRING, M::FEATURE, M::NODE_NA, M::BOOST_STAT, M::ACCESSORY_STATE};
			uint8_t t = BT[dp.pick(sizeof BT)];
			unsigned k = dp.chance(128) ? (unsigned) dp.range(100, 300) : (unsigned) dp.range(2, 40);
			ctx.desc << "  burst type=" << std::hex << (int) t << std::dec << " x" << k << "\n";
			for (unsigned j = 0; j < k; j++) {
				ref::Msg m = draw_msg(t, true);
				bool is_err = false;
				traffic::Hints h;
				h.force_variant = true;
				h.error_variant = true;
				m.data = traffic::valid_payload(dp, t, h, &is_err);
				counter++;
				if (t == M::SYS_ERROR) m.data = {0x20, (uint8_t) counter};
				else if (!m.data.empty() && !traffic::has_error_variant(t)) m.data[0] = (uint8_t) counter;
				else if (t == M::BOOST_STAT) m.seq = (uint8_t) (counter % 255 + 1);
				else if (t == M::ACCESSORY_STATE) m.data[0] = (uint8_t) counter;
				feed(m, is_err);
				if (j % 16 == 15) s.settle();
			}
		} else if (kind == 2) {
			int k = (int) dp.pick(2), j = dp.range(1, dp.chance(60) ? 140 : 6);
			s.settle();
			ctx.desc << "  read " << QN[k] << " x" << j << "\n";
			read_check(k, j);
		} else {
			s.settle();
			if (!debug) read_check(2, dp.range(1, 4));
		}
	}
	s.settle();
	// optional concurrent phase: readers race the receiver; no overflow in this phase (the model cannot
	// know which message an overflow drops while readers are popping)
	bool threaded = dp.chance(120);
	unsigned preempt0 = vf_preemptions_taken();
	if (threaded) {
		read_check(0, (int) M_.q[0].size());
		read_check(1, (int) M_.q[1].size());
		unsigned nr = (unsigned) dp.range(1, 3);
		int done = 0;
		std::vector<Reader> rd(nr);
		unsigned nmsg = (unsigned) dp.range(5, 100);
		for (unsigned r = 0; r < nr; r++) rd[r] = {(int) dp.pick(2), dp.range(10, 160), (unsigned) dp.range(0, 4) * 2500, {}, &done};
		std::vector<ref::Bytes> sent[2];
		std::vector<pthread_t> th(nr);
		ctx.desc << "  concurrent phase: " << nr << " readers, " << nmsg << " messages\n";
		for (unsigned r = 0; r < nr; r++) vf_pthread_create(&th[r], nullptr, reader_main, &rd[r]);
		for (unsigned j = 0; j < nmsg; j++) {
			static const uint8_t BT[] = {M::SYS_PONG, M::SYS_ERROR, M::BM_CV, M::LC_NA, M::STRING};
			ref::Msg m = draw_msg(BT[dp.pick(sizeof BT)], true);
			counter++;
			m.data = m.type == M::SYS_ERROR ? ref::Bytes{0x20, (uint8_t) counter} : ref::Bytes{(uint8_t) counter, (uint8_t) (counter >> 8), 0, 0, 0};
			if (m.type == M::STRING) m.data = {0, (uint8_t) counter, 0};
			if (m.type == M::LC_NA) m.data = {(uint8_t) counter, (uint8_t) (counter >> 8)};
			Dest d = expected(m, false);
			ref::Bytes enc = ref::encode_msg(m);
			sent[d == D_ERR ? 1 : 0].push_back(enc);
			s.inject(ref::frame(enc), dp.chance(100) ? (uint64_t) dp.range(1, 8) * 1000 : 0);
			if (dp.chance(80)) vf_usleep((unsigned) dp.range(1, 6) * 1000);
		}
		int guard = 0;
		while (done < (int) nr && guard++ < 100000) vf_usleep(2000);
		if (done < (int) nr) ctx.fail("HANG: reader threads did not finish");
		for (unsigned r = 0; r < nr; r++) vf_pthread_join(th[r], nullptr);
		s.settle();
		std::vector<ref::Bytes> rest[2] = {Session::drain_messages(), Session::drain_errors()};
		for (int k = 0; k < 2; k++) {
			std::multiset<ref::Bytes> got(rest[k].begin(), rest[k].end()), want(sent[k].begin(), sent[k].end());
			std::map<ref::Bytes, size_t> pos;
			for (size_t i = 0; i < sent[k].size(); i++) pos[sent[k][i]] = i;
			for (auto &r : rd) {
				if (r.which != k) continue;
				long last = -1;
				for (auto &g : r.got) {
					got.insert(g);
					auto it = pos.find(g);
					if (it == pos.end()) ctx.fail(std::string("UNEXPECTED: a reader of the ") + QN[k] + " received " + hex(g) + " which was never sent to that queue");
					if ((long) it->second <= last) ctx.fail(std::string("ORDER: one reader of the ") + QN[k] + " received " + hex(g) + " after a younger message");
					last = (long) it->second;
				}
			}
			// the final drain is in order too
			long last = -1;
			for (auto &g : rest[k]) {
				auto it = pos.find(g);
				if (it == pos.end()) ctx.fail(std::string("UNEXPECTED: ") + QN[k] + " holds " + hex(g) + " which was never sent to it");
				if ((long) it->second <= last) ctx.fail(std::string("ORDER: final drain of the ") + QN[k] + " out of order at " + hex(g));
				last = (long) it->second;
			}
			if (got != want) {
				for (auto &w : want)
					if (got.count(w) != want.count(w))
						ctx.fail(std::string("ONCE-ONLY: message ") + hex(w) + " was delivered " + std::to_string(got.count(w)) + " times by the " + QN[k] + " to " + std::to_string(nr) + " concurrent readers (expected exactly once)");
				ctx.fail(std::string("ONCE-ONLY: the readers of the ") + QN[k] + " received messages that were not sent");
			}
		}
	} else {
		// final: every queue equals the model
		read_check(0, (int) M_.q[0].size() + 1);
		read_check(1, (int) M_.q[1].size() + 1);
		if (!debug) read_check(2, (int) M_.q[2].size() + 1);
	}
	unsigned preempt = vf_preemptions_taken() - preempt0;
	s.stop();
	std::string an = lifecycle_anomalies(true);
	if (!an.empty()) ctx.fail("LIFECYCLE: " + an);
	ctx.tag(debug ? "debug-mode" : "normal-mode");
	if (crossed) ctx.tag("crossed-128-bound");
	if (pair_seen) ctx.tag("error+non-error-variant-of-one-type");
	if (threaded) ctx.tag(preempt > 0 ? "readers-racing-receiver+preemption" : "readers-racing-receiver");
	ctx.count("distinct-type-codes-in-case", (long) types_seen.size());
	for (uint8_t t : types_seen) ctx.tag("type-" + hex(&t, 1));
	ctx.nontrivial = crossed || pair_seen || (threaded && preempt > 0);
	ctx.hash_src = ctx.desc.str() + (threaded ? hex(sched) : "");
}

PropReg reg({"C06", prop,
             "non-trivial: the history crosses the 128 bound of a queue, or contains the error and the non-error variant of one "
             "type, or has reader threads racing the receiver with >=1 honoured preemption; every type code exercised is tagged "
             "(type-xx) so that the evidence shows the covered part of the 256-code table; distinct = distinct histories",
             1200, 60, true});

}  // namespace
