// C07 — Tracked state equals the fold of all feedback messages over the initial state.
//
// Domain: generated configuration (boards with booster / track-output / occupancy class bits, board
// and DCC accessories, peripherals, segments, reversers, trains with functions) + generated node tree
// with a generated connected subset and unknown nodes; normal-mode session; history of state-bearing
// uplink messages with field values over their full ranges — every current / voltage code, every
// execution / ack code, address lists of 0..6 entries incl. the "free" form, accessory-flagged entries
// and both orientation codes, diagnostic key/value lists in any order with value bytes equal to key
// codes, occupancy bitmaps of 8..128 bits, vendor key/value pairs — addressed to known AND unknown
// nodes / numbers / ports / DCC addresses, interleaved with the user's own drive and DCC accessory
// commands (bidib_set_train_speed, bidib_set_train_peripheral, bidib_send_cs_drive,
// bidib_send_cs_accessory).
// Oracle: props/state_model.hpp (R-state). After every step, at a quiescent moment, the complete
// observable state (bidib_get_state rendered field by field) must equal the fold; a message with an
// unknown reference must leave the snapshot exactly as it was.
#include "props/state_model.hpp"
#include "harness/traffic.hpp"
#include <cstring>
#include <algorithm>

using namespace vf;

namespace {

struct Env {
	Normal &n;
	DP &dp;
	struct Src { int node; const cfg::Board *b; };          // nodes on the bus
	std::vector<Src> srcs;
	std::map<int, int> orient;                                // per DCC address (h<<8|l): orientation bits used in this case

	const cfg::Board *pick_board(bool want_track, int *node_idx) {
		std::vector<Src> ok;
		for (auto &s : srcs) if (s.b && (!want_track || s.b->in_track)) ok.push_back(s);
		if (ok.empty() || dp.chance(40)) { const Src &s = srcs[dp.pick((unsigned) srcs.size())]; *node_idx = s.node; return s.b; }
		const Src &s = ok[dp.pick((unsigned) ok.size())];
		*node_idx = s.node;
		return s.b;
	}
	// a DCC address: configured train / configured accessory / unknown
	void dcc_addr(uint8_t &l, uint8_t &h, bool train_like) {
		unsigned k = dp.weighted({10, 3});
		if (k == 0 && train_like && !n.c.trains.empty()) { auto &t = n.c.trains[dp.pick((unsigned) n.c.trains.size())]; l = t.addrl; h = t.addrh; return; }
		l = dp.u8();
		h = (uint8_t) dp.pick(64);
	}
	uint8_t code() {              // a coding byte: boundaries of the piecewise tables weighted up
		static const uint8_t B[] = {0, 1, 15, 16, 63, 64, 127, 128, 191, 192, 250, 251, 253, 254, 255};
		return dp.chance(120) ? B[dp.pick(sizeof B)] : dp.u8();
	}
};

void prop(DP &dp, const ref::Bytes &sched, Ctx &ctx) {
	Normal n;
	NormalOpts o;
	o.gen.need_track_output = dp.chance(200);
	o.gen.need_segments = dp.chance(200);
	o.gen.max_items = 3;
	o.present_mode = dp.chance(170) ? 1 : 0;
	n.prepare(dp, sched, o);
	ctx.desc << "C07 " << n.c.summary() << "\n bus: " << n.bus.describe() << "\n";
	if (n.start(0) != 0) ctx.fail("START: valid configuration rejected");
	n.s.settle();
	n.bus.silent = true;
	Session::drain_messages();
	Session::drain_errors();
	StateModel M_;
	M_.init(n.c);
	{
		std::string d0 = M_.diff();
		if (!d0.empty()) ctx.fail("HARNESS: reference rendering differs from the snapshot it was read from: " + d0);
	}
	Env e{n, dp, {}, {}};
	for (size_t i = 0; i < n.bus.nodes.size(); i++) {
		if (n.bus.nodes[i].gone) continue;
		const cfg::Board *b = n.bus.nodes[i].board_id.empty() ? nullptr : n.c.board(n.bus.nodes[i].board_id);
		e.srcs.push_back({(int) i, b});
	}
	std::set<uint8_t> types;
	unsigned unknown_refs = 0, known_refs = 0, commands = 0;
	unsigned nsteps = (unsigned) dp.range(1, 60);
	for (unsigned step = 0; step < nsteps && (step < 2 || dp.more()); step++) {
		unsigned kind = dp.weighted({9, 10, 3, 4, 4, 5, 3, 4, 3, 3, 3, 4, 3, 6});
		int node = 0;
		ref::Msg m;
		bool is_msg = true;
		std::ostringstream call;
		std::string before = snapshot_text();
		bool known = false;
		switch (kind) {
		case 0: {   // occupancy: OCC / FREE / MULTIPLE
			const cfg::Board *b = e.pick_board(true, &node);
			unsigned w = dp.pick(3);
			uint8_t num = (b && b->in_track && !b->segments.empty() && dp.chance(200)) ? b->segments[dp.pick((unsigned) b->segments.size())].addr : dp.u8();
			if (w < 2) { m.type = w == 0 ? M::BM_OCC : M::BM_FREE; m.data = {num}; }
			else {
				uint8_t base = (uint8_t) (num & 0xF8), size = (uint8_t) (8 * dp.range(1, dp.chance(200) ? 3 : 16));
				if (base + size > 255) { ctx.count("excluded:bitmap-reaching-detector-255"); size = 8; if (base == 248) base = 240; }
				m.type = M::BM_MULTIPLE;
				m.data = {base, size};
				for (int i = 0; i < size / 8; i++) m.data.push_back(dp.chance(128) ? dp.u8() : (uint8_t) (dp.flag() ? 0xFF : 0));
			}
			break;
		}
		case 1: {   // detected decoder addresses
			const cfg::Board *b = e.pick_board(true, &node);
			uint8_t num = (b && b->in_track && !b->segments.empty() && dp.chance(215)) ? b->segments[dp.pick((unsigned) b->segments.size())].addr : dp.u8();
			m.type = M::BM_ADDRESS;
			m.data = {num};
			unsigned form = dp.weighted({3, 12});
			if (form == 0) { m.data.push_back(0); m.data.push_back(0); }            // "free" form
			else {
				int cnt = dp.range(1, 6);
				for (int i = 0; i < cnt; i++) {
					uint8_t l, h;
					e.dcc_addr(l, h, true);
					unsigned t = dp.weighted({10, 2, 1});                        // vehicle / accessory / extended accessory
					int key = h << 8 | l;
					if (!e.orient.count(key)) e.orient[key] = dp.flag() ? 0x80 : 0x00;
					uint8_t top = t == 0 ? (uint8_t) e.orient[key] : t == 1 ? 0x40 : 0xC0;
					if (l == 0 && h == 0 && top == 0 && cnt == 1) l = 1;           // not the free form by accident
					m.data.push_back(l);
					m.data.push_back((uint8_t) (h | top));
				}
			}
			break;
		}
		case 2: {   // confidence
			e.pick_board(true, &node);
			m.type = M::BM_CONFIDENCE;
			m.data = {(uint8_t) (dp.chance(200) ? dp.pick(2) : dp.u8()), (uint8_t) (dp.chance(200) ? dp.pick(2) : dp.u8()), (uint8_t) (dp.chance(200) ? dp.pick(2) : dp.u8())};
			break;
		}
		case 3: {   // segment current
			const cfg::Board *b = e.pick_board(true, &node);
			uint8_t num = (b && b->in_track && !b->segments.empty() && dp.chance(215)) ? b->segments[dp.pick((unsigned) b->segments.size())].addr : dp.u8();
			m.type = M::BM_CURRENT;
			m.data = {num, e.code()};
			break;
		}
		case 4: {   // measured speed / decoder dynamics
			e.pick_board(false, &node);
			uint8_t l, h;
			e.dcc_addr(l, h, true);
			if (dp.flag()) { m.type = M::BM_SPEED; m.data = {l, (uint8_t) (h | (dp.chance(60) ? 0x80 : 0)), dp.u8(), dp.u8()}; }
			else { m.type = M::BM_DYN_STATE; m.data = {dp.u8(), l, h, (uint8_t) dp.range(1, 5), dp.u8()}; }
			break;
		}
		case 5: {   // booster state / diagnostics
			std::vector<Env::Src> bs;
			for (auto &s : e.srcs) if (s.b && s.b->is_booster()) bs.push_back(s);
			if (!bs.empty() && dp.chance(215)) node = bs[dp.pick((unsigned) bs.size())].node;
			else e.pick_board(false, &node);
			if (dp.chance(100)) {
				static const uint8_t ST[] = {0x00, 0x01, 0x02, 0x04, 0x05, 0x80, 0x84};
				m.type = M::BOOST_STAT;
				m.data = {ST[dp.pick(sizeof ST)]};
			} else {
				m.type = M::BOOST_DIAGNOSTIC;
				int cnt = dp.range(1, 5);
				for (int i = 0; i < cnt; i++) {
					uint8_t key = dp.chance(235) ? (uint8_t) dp.pick(3) : dp.u8();
					uint8_t val = dp.chance(110) ? (uint8_t) dp.pick(3) : e.code();      // value bytes that look like key codes
					m.data.push_back(key);
					m.data.push_back(val);
				}
			}
			break;
		}
		case 6: {   // command station state
			std::vector<Env::Src> os;
			for (auto &s : e.srcs) if (s.b && s.b->is_track_output()) os.push_back(s);
			if (!os.empty() && dp.chance(215)) node = os[dp.pick((unsigned) os.size())].node;
			else e.pick_board(false, &node);
			m.type = M::CS_STATE;
			m.data = {traffic::CS_STATES[dp.pick(sizeof traffic::CS_STATES)]};
			break;
		}
		case 7: {   // board accessory state / notify
			const cfg::Board *b = e.pick_board(true, &node);
			std::vector<const cfg::BoardAcc *> accs;
			if (b && b->in_track) { for (auto &a : b->points_board) accs.push_back(&a); for (auto &a : b->signals_board) accs.push_back(&a); }
			uint8_t num = dp.u8() & 0x7f, asp = dp.u8();
			if (!accs.empty() && dp.chance(215)) {
				const cfg::BoardAcc *a = accs[dp.pick((unsigned) accs.size())];
				num = a->number;
				if (dp.chance(190)) asp = a->aspects[dp.pick((unsigned) a->aspects.size())].value;
			}
			m.type = dp.chance(190) ? M::ACCESSORY_STATE : M::ACCESSORY_NOTIFY;
			static const uint8_t EX[] = {0x00, 0x01, 0x02, 0x03, 0x80};
			m.data = {num, asp, (uint8_t) dp.range(1, 8), EX[dp.pick(sizeof EX)], dp.u8()};
			break;
		}
		case 8: {   // peripheral port state / wait
			const cfg::Board *b = e.pick_board(true, &node);
			uint8_t p0 = dp.u8(), p1 = dp.chance(200) ? 0 : dp.u8(), val = dp.u8();
			if (b && b->in_track && !b->peripherals.empty() && dp.chance(215)) {
				const cfg::Periph &p = b->peripherals[dp.pick((unsigned) b->peripherals.size())];
				p0 = p.port0; p1 = p.port1;
				if (dp.chance(190)) val = p.aspects[dp.pick((unsigned) p.aspects.size())].value;
			}
			m.type = dp.chance(170) ? M::LC_STAT : M::LC_WAIT;
			m.data = {p0, p1, val};
			break;
		}
		case 9: {   // drive acknowledgement
			e.pick_board(false, &node);
			uint8_t l, h;
			e.dcc_addr(l, h, true);
			m.type = M::CS_DRIVE_ACK;
			m.data = {l, h, (uint8_t) dp.pick(4)};
			break;
		}
		case 10: {  // DCC accessory acknowledgement / manual operation
			const cfg::Board *b = e.pick_board(true, &node);
			std::vector<const cfg::DccAcc *> accs;
			if (b && b->in_track) { for (auto &a : b->points_dcc) accs.push_back(&a); for (auto &a : b->signals_dcc) accs.push_back(&a); }
			uint8_t l = dp.u8(), h = (uint8_t) dp.pick(64);
			if (!accs.empty() && dp.chance(215)) { const cfg::DccAcc *a = accs[dp.pick((unsigned) accs.size())]; l = a->addrl; h = a->addrh; }
			if (dp.flag()) { m.type = M::CS_ACCESSORY_ACK; m.data = {l, h, (uint8_t) dp.pick(4)}; }
			else { m.type = M::CS_ACCESSORY_MANUAL; m.data = {l, h, dp.u8()}; }
			break;
		}
		case 11: {  // manual drive (hand controller)
			e.pick_board(false, &node);
			uint8_t l, h;
			e.dcc_addr(l, h, true);
			m.type = M::CS_DRIVE_MANUAL;
			m.data = {l, h, (uint8_t) (dp.flag() ? 0 : dp.range(2, 3)), (uint8_t) (dp.chance(40) ? 0 : dp.pick(64)), dp.u8(), (uint8_t) dp.pick(32), dp.u8(), dp.u8(), dp.u8()};
			break;
		}
		case 12: {  // reverser state (vendor key = configured CV)
			const cfg::Board *b = e.pick_board(true, &node);
			std::string name = std::to_string(30000 + dp.range(0, 300));
			if (b && b->in_track && !b->reversers.empty() && dp.chance(215)) {
				name = b->reversers[dp.pick((unsigned) b->reversers.size())].cv;
				// near misses of a configured key: a proper prefix (down to the empty name) or the key with one more digit
				if (dp.chance(50)) name = dp.flag() ? name.substr(0, dp.pick((unsigned) name.size())) : name + (char) ('0' + dp.pick(10));
			}
			std::string val(1, (char) ('0' + dp.pick(5)));
			if (dp.chance(60)) val += (char) ('0' + dp.pick(10));
			m.type = M::VENDOR;
			m.data = {(uint8_t) name.size()};
			m.data.insert(m.data.end(), name.begin(), name.end());
			m.data.push_back((uint8_t) val.size());
			m.data.insert(m.data.end(), val.begin(), val.end());
			break;
		}
		default: {  // the user's own commands (optimistic effect)
			is_msg = false;
			commands++;
			unsigned w = dp.weighted({4, 4, 4, 3});
			std::vector<std::string> outs;
			for (auto &s : e.srcs) if (s.b && s.b->is_track_output()) outs.push_back(s.b->id);
			if (w == 0 && !n.c.trains.empty() && !outs.empty()) {
				const cfg::Train &t = n.c.trains[dp.pick((unsigned) n.c.trains.size())];
				int speed = dp.chance(60) ? 0 : dp.range(-126, 126);
				const std::string &ob = outs[dp.pick((unsigned) outs.size())];
				call << "bidib_set_train_speed(" << t.id << ", " << speed << ", " << ob << ")";
				int rc = bidib_set_train_speed(t.id.c_str(), speed, ob.c_str());
				if (rc == 0) {
					StateModel::Train &mt = M_.trains[t.id];
					mt.step = speed;
					if (speed != 0) mt.fwd = speed > 0;
					mt.ack = 4;
					known = true;
				}
			} else if (w == 1 && !n.c.trains.empty() && !outs.empty()) {
				const cfg::Train &t = n.c.trains[dp.pick((unsigned) n.c.trains.size())];
				if (t.periphs.empty()) call << "(train without functions: nothing called)";
				else {
					const cfg::TrainPeriph &p = t.periphs[dp.pick((unsigned) t.periphs.size())];
					uint8_t st = (uint8_t) dp.pick(2);
					const std::string &ob = outs[dp.pick((unsigned) outs.size())];
					call << "bidib_set_train_peripheral(" << t.id << ", " << p.id << ", " << (int) st << ", " << ob << ")";
					int rc = bidib_set_train_peripheral(t.id.c_str(), p.id.c_str(), st, ob.c_str());
					if (rc == 0) {
						StateModel::Train &mt = M_.trains[t.id];
						for (auto &f : mt.fn) if (f.id == p.id) f.state = st;
						mt.ack = 4;
						known = true;
					}
				}
			} else if (w == 2) {
				// low-level drive command to any node: the tracked train follows the command
				e.pick_board(false, &node);
				uint8_t l, h;
				e.dcc_addr(l, h, true);
				t_bidib_cs_drive_mod p;
				p.dcc_address.addrl = l; p.dcc_address.addrh = h; p.dcc_address.type = 0;
				p.dcc_format = (uint8_t) (dp.flag() ? 0 : dp.range(2, 3));
				p.active = (uint8_t) (dp.chance(40) ? 0 : dp.pick(64));
				p.speed = dp.u8();
				p.function1 = (uint8_t) dp.pick(32); p.function2 = dp.u8(); p.function3 = dp.u8(); p.function4 = dp.u8();
				call << "bidib_send_cs_drive(node " << hex(n.bus.nodes[(size_t) node].addr) << ", addr " << (int) h << ":" << (int) l << " active=" << (int) p.active << " speed=" << (int) p.speed
				     << " f=" << (int) p.function1 << "," << (int) p.function2 << "," << (int) p.function3 << "," << (int) p.function4 << ")";
				t_bidib_node_address na = {0, 0, 0};
				const ref::Bytes &ad = n.bus.nodes[(size_t) node].addr;
				if (ad.size() > 0) na.top = ad[0];
				if (ad.size() > 1) na.sub = ad[1];
				if (ad.size() > 2) na.subsub = ad[2];
				bidib_send_cs_drive(na, p, 0);
				int f[4] = {p.function1, p.function2, p.function3, p.function4};
				known = M_.train_by_addr(l, h) != nullptr;
				M_.apply_drive(l, h, p.active, p.speed, f);
			} else {
				// low-level DCC accessory command
				const cfg::Board *b = e.pick_board(true, &node);
				std::vector<const cfg::DccAcc *> accs;
				std::vector<bool> is_point;
				if (b && b->in_track) { for (auto &a : b->points_dcc) { accs.push_back(&a); is_point.push_back(true); } for (auto &a : b->signals_dcc) { accs.push_back(&a); is_point.push_back(false); } }
				t_bidib_cs_accessory_mod p;
				p.dcc_address.addrl = dp.u8(); p.dcc_address.addrh = (uint8_t) dp.pick(64); p.dcc_address.type = 0;
				size_t which = 0;
				bool hit = false;
				if (!accs.empty() && dp.chance(215)) { which = dp.pick((unsigned) accs.size()); p.dcc_address.addrl = accs[which]->addrl; p.dcc_address.addrh = accs[which]->addrh; hit = true; }
				// a freely drawn address may happen to be a configured one (1 in 16384: found by the thorough tier)
				for (size_t i = 0; i < accs.size() && !hit; i++)
					if (accs[i]->addrl == p.dcc_address.addrl && accs[i]->addrh == p.dcc_address.addrh) { which = i; hit = true; }
				p.data = dp.u8();
				p.time = dp.u8();
				t_bidib_node_address na = {0, 0, 0};
				const ref::Bytes &ad = n.bus.nodes[(size_t) node].addr;
				if (ad.size() > 0) na.top = ad[0];
				if (ad.size() > 1) na.sub = ad[1];
				if (ad.size() > 2) na.subsub = ad[2];
				call << "bidib_send_cs_accessory(node " << hex(ad) << ", addr " << (int) p.dcc_address.addrh << ":" << (int) p.dcc_address.addrl << " data=" << (int) p.data << " time=" << (int) p.time << ")";
				bidib_send_cs_accessory(na, p, 0);
				if (hit) {
					StateModel::Dcc &s = (is_point[which] ? M_.dpoints : M_.dsignals)[accs[which]->id];
					s.has_id = false; s.state_id.clear();
					s.value = p.data & 0x1f; s.coil = (p.data >> 5) & 1; s.timing = (p.data & 0x40) ? 0 : 1;
					s.unit = (p.time & 0x80) ? 1 : 0; s.time = p.time & 0x7f;
					known = true;
				}
			}
			bidib_flush();
			break;
		}
		}
		if (is_msg) {
			const Env::Src *src = nullptr;
			for (auto &s : e.srcs) if (s.node == node) src = &s;
			m.addr = n.bus.nodes[(size_t) node].addr;
			types.insert(m.type);
			known = M_.rx(src ? src->b : nullptr, m);
			ctx.desc << "  rx " << ref::show(m) << (src && src->b ? " from " + src->b->id : " from unknown node") << (known ? "" : "  [unknown reference]") << "\n";
			n.bus.send_from(node, m.type, m.data);
			n.s.settle();
		} else {
			ctx.desc << "  " << call.str() << (known ? "" : "  [no tracked entity]") << "\n";
		}
		(known ? known_refs : unknown_refs)++;
		std::string df = M_.diff();
		if (!df.empty()) ctx.fail("STATE: after " + (is_msg ? "rx " + ref::show(m) : call.str()) + ": " + df);
		if (!known && snapshot_text() != before) ctx.fail("UNKNOWN-CHANGED: " + (is_msg ? "rx " + ref::show(m) : call.str()) + " refers to unknown equipment but the snapshot changed");
		Session::drain_messages();
		Session::drain_errors();
	}
	n.s.stop();
	std::string an = lifecycle_anomalies(true);
	if (!an.empty()) ctx.fail("LIFECYCLE: " + an);
	for (uint8_t t : types) ctx.tag("type-" + hex(&t, 1));
	if (commands) ctx.tag("user-commands");
	ctx.count("known-reference-steps", known_refs);
	ctx.count("unknown-reference-steps", unknown_refs);
	ctx.nontrivial = types.size() >= 3 && unknown_refs >= 1 && known_refs >= 1;
	ctx.hash_src = ctx.desc.str();
}

PropReg reg({"C07", prop,
             "non-trivial: the history has >=3 distinct state-bearing message types, >=1 step that changes known equipment and "
             ">=1 message with an unknown reference; per-type tags; distinct = distinct (configuration, tree, history)",
             1500, 0, false});

}  // namespace
