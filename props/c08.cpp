// C08 — Train presence / position / orientation always agree with the segment address lists.
//
// Domain: generated configuration with 1..3 boards, 2..12 segments, 1..4 trains; normal-mode session
// with all boards on the bus; history of occupancy traffic only: BM_OCC / BM_FREE / BM_MULTIPLE /
// BM_ADDRESS from the boards (and from unknown nodes), address lists with configured trains (both
// orientation codes, trains spanning several segments, several trains per segment), unknown
// addresses, accessory-flagged entries and the "free" form; one message per packet, so that
// "instants" are message boundaries. 0..2 getter threads run concurrently under a generated schedule.
// Oracle: an INVARIANT OVER THE GETTERS (no model). At every message boundary (quiescent):
//   for every configured train T with address A:  S(T) := { segment s | bidib_get_segment_state(s) lists A }
//     bidib_get_train_on_track(T)            == (S(T) != {})
//     bidib_get_train_position(T) as a set   == S(T)        (and no segment twice)
//     bidib_get_trains_on_track()            == { T | S(T) != {} }
//     orientation (position query and train state) is one of the orientation codes listed with A in S(T)
//     bidib_get_state agrees with the single getters
//   a configured segment that the last message reported free lists no addresses and is not occupied.
// Concurrent getters: every result must equal the boundary value of SOME message boundary inside the
// window of the call (the scheduler knows the window): no lagging, no torn position.
#include "harness/normal.hpp"
#include "ref/msgs.hpp"
#include <cstring>
#include <algorithm>

using namespace vf;

namespace {

struct TrainView { bool on_track = false; std::set<std::string> pos; int orient_left = -1; };
struct Boundary {
	uint64_t t_from, t_to;                              // the value may be observed from t_from (message injected) to t_to (next message settled)
	std::map<std::string, TrainView> trains;
	std::map<std::string, std::string> segs;            // segment -> rendered address list
};

std::string seg_addrs(const t_bidib_segment_state_query &q) {
	std::string r = q.data.occupied ? "occ:" : "free:";
	for (size_t i = 0; i < q.data.dcc_address_cnt; i++)
		r += std::to_string(q.data.dcc_addresses[i].addrh) + "." + std::to_string(q.data.dcc_addresses[i].addrl) + "t" + std::to_string(q.data.dcc_addresses[i].type) + ",";
	return r;
}

struct Obs { uint64_t ts, te; int what; std::string id; TrainView tv; std::string seg; };
struct Reader {
	std::vector<std::string> trains, segs;
	ref::Bytes plan;
	std::vector<Obs> obs;
	int *done;
	volatile bool *stop;
};
void *reader_main(void *p) {
	Reader *r = (Reader *) p;
	size_t k = 0;
	while (!*r->stop && k < 400) {
		uint8_t c = r->plan.empty() ? (uint8_t) k : r->plan[k % r->plan.size()];
		k++;
		Obs o;
		o.what = c % 3;
		o.ts = vf_now_us();
		if (o.what == 0 && !r->trains.empty()) {
			o.id = r->trains[(c / 3) % r->trains.size()];
			t_bidib_train_position_query q = bidib_get_train_position(o.id.c_str());
			for (size_t i = 0; i < q.length; i++) o.tv.pos.insert(q.segments[i] ? q.segments[i] : "(null)");
			o.tv.on_track = q.length > 0;
			if (o.tv.pos.size() != q.length) o.tv.pos.insert("(duplicate)");
			o.tv.orient_left = q.orientation_is_left;
			bidib_free_train_position_query(q);
		} else if (o.what == 1 && !r->trains.empty()) {
			o.id = r->trains[(c / 3) % r->trains.size()];
			o.tv.on_track = bidib_get_train_on_track(o.id.c_str());
		} else if (!r->segs.empty()) {
			o.what = 2;
			o.id = r->segs[(c / 3) % r->segs.size()];
			t_bidib_segment_state_query q = bidib_get_segment_state(o.id.c_str());
			o.seg = q.known ? seg_addrs(q) : "unknown";
			bidib_free_segment_state_query(q);
		} else continue;
		o.te = vf_now_us();
		r->obs.push_back(o);
		vf_usleep((unsigned) (1 + c % 5) * 1500);
	}
	(*r->done)++;
	return nullptr;
}

void prop(DP &dp, const ref::Bytes &sched, Ctx &ctx) {
	Normal n;
	NormalOpts o;
	o.gen.need_segments = true;
	o.gen.min_boards = 1;
	o.gen.max_boards = 3;
	o.gen.max_items = 2;
	o.gen.max_trains = 4;
	o.present_mode = 1;
	n.prepare(dp, sched, o);
	ctx.desc << "C08 " << n.c.summary() << "\n bus: " << n.bus.describe() << "\n";
	if (n.start(0) != 0) ctx.fail("START: valid configuration rejected");
	n.s.settle();
	n.bus.silent = true;
	struct SegRef { std::string id; int node; uint8_t addr; };
	std::vector<SegRef> segs;
	for (auto &b : n.c.boards)
		if (b.in_track)
			for (auto &s : b.segments) segs.push_back({s.id, n.node_of(&b - &n.c.boards[0]), s.addr});
	std::vector<int> nodes;
	for (size_t i = 0; i < n.bus.nodes.size(); i++) nodes.push_back((int) i);
	if (segs.empty()) { n.s.stop(); ctx.tag("no-segments"); return; }

	// computes the boundary value from the getters and checks the invariant
	std::set<std::string> just_freed;
	std::string last_event;
	auto boundary = [&](Boundary &B) {
		std::map<std::string, std::vector<std::pair<int, int>>> listed;   // segment -> (addr key, type)
		for (auto &s : segs) {
			t_bidib_segment_state_query q = bidib_get_segment_state(s.id.c_str());
			if (!q.known) ctx.fail("GETTER: configured segment " + s.id + " is unknown to bidib_get_segment_state");
			B.segs[s.id] = seg_addrs(q);
			for (size_t i = 0; i < q.data.dcc_address_cnt; i++)
				listed[s.id].push_back({q.data.dcc_addresses[i].addrh << 8 | q.data.dcc_addresses[i].addrl, q.data.dcc_addresses[i].type});
			if (just_freed.count(s.id) && (q.data.dcc_address_cnt > 0 || q.data.occupied))
				ctx.fail("FREE: segment " + s.id + " was just reported free but bidib_get_segment_state says " + B.segs[s.id] + " (after " + last_event + ")");
			bidib_free_segment_state_query(q);
		}
		std::set<std::string> on_track_expected;
		for (auto &t : n.c.trains) {
			int key = t.addrh << 8 | t.addrl;
			std::set<std::string> S;
			std::set<int> orients;
			for (auto &kv : listed)
				for (auto &a : kv.second)
					if (a.first == key) { S.insert(kv.first); orients.insert(a.second == 0 ? 1 : 0); }
			TrainView &tv = B.trains[t.id];
			t_bidib_train_position_query q = bidib_get_train_position(t.id.c_str());
			for (size_t i = 0; i < q.length; i++) tv.pos.insert(q.segments[i] ? q.segments[i] : "(null)");
			bool dup = tv.pos.size() != q.length;
			tv.orient_left = q.orientation_is_left;
			bidib_free_train_position_query(q);
			tv.on_track = bidib_get_train_on_track(t.id.c_str());
			auto show = [](const std::set<std::string> &x) { std::string r = "{"; for (auto &e : x) r += e + ","; return r + "}"; };
			if (tv.on_track != !S.empty())
				ctx.fail("ON-TRACK: train " + t.id + " on_track=" + std::to_string(tv.on_track) + " but the segments listing its address are " + show(S) + " (after " + last_event + ")");
			if (tv.pos != S || dup)
				ctx.fail("POSITION: bidib_get_train_position(" + t.id + ") = " + show(tv.pos) + (dup ? " (with duplicates)" : "") + " but the segments listing its address are " + show(S) + " (after " + last_event + ")");
			if (!S.empty() && !orients.count(tv.orient_left))
				ctx.fail("ORIENTATION: bidib_get_train_position(" + t.id + ").orientation_is_left=" + std::to_string(tv.orient_left) + " is not an orientation reported with its address (after " + last_event + ")");
			t_bidib_train_state_query ts = bidib_get_train_state(t.id.c_str());
			if (!ts.known) ctx.fail("GETTER: configured train " + t.id + " unknown to bidib_get_train_state");
			if (ts.data.on_track != tv.on_track) ctx.fail("ON-TRACK: bidib_get_train_state(" + t.id + ").on_track disagrees with bidib_get_train_on_track (after " + last_event + ")");
			if (!S.empty() && !orients.count(ts.data.orientation == BIDIB_TRAIN_ORIENTATION_LEFT ? 1 : 0))
				ctx.fail("ORIENTATION: bidib_get_train_state(" + t.id + ").orientation is not an orientation reported with its address (after " + last_event + ")");
			bidib_free_train_state_query(ts);
			if (!S.empty()) on_track_expected.insert(t.id);
		}
		std::multiset<std::string> got = take_ids(bidib_get_trains_on_track());
		std::multiset<std::string> want(on_track_expected.begin(), on_track_expected.end());
		if (got != want) ctx.fail("ON-TRACK: bidib_get_trains_on_track() = " + show_ids(got) + ", the segment lists imply " + show_ids(want) + " (after " + last_event + ")");
		// the whole-track snapshot agrees
		t_bidib_track_state st = bidib_get_state();
		for (size_t i = 0; i < st.trains_count; i++) {
			auto it = B.trains.find(st.trains[i].id ? st.trains[i].id : "");
			if (it != B.trains.end() && st.trains[i].data.on_track != it->second.on_track) {
				bidib_free_track_state(st);
				ctx.fail("ON-TRACK: bidib_get_state disagrees with bidib_get_train_on_track for " + it->first + " (after " + last_event + ")");
			}
		}
		bidib_free_track_state(st);
	};

	unsigned nreaders = dp.chance(110) ? (unsigned) dp.range(1, 2) : 0;
	int done = 0;
	volatile bool stop = false;
	std::vector<Reader> rd(nreaders);
	std::vector<pthread_t> th(nreaders);
	for (unsigned r = 0; r < nreaders; r++) {
		for (auto &t : n.c.trains) rd[r].trains.push_back(t.id);
		for (auto &s : segs) rd[r].segs.push_back(s.id);
		rd[r].plan = dp.bytes((size_t) dp.range(4, 24));
		rd[r].done = &done;
		rd[r].stop = &stop;
	}
	std::vector<Boundary> hist;
	{
		Boundary B0;
		B0.t_from = 0;
		last_event = "startup";
		boundary(B0);
		hist.push_back(B0);
	}
	for (unsigned r = 0; r < nreaders; r++) vf_pthread_create(&th[r], nullptr, reader_main, &rd[r]);

	std::map<int, int> orient;      // address -> orientation bits (may change between reports)
	std::map<std::string, int> pos_changes;
	bool multi_seg = false, shared_seg = false;
	unsigned nev = (unsigned) dp.range(1, 50);
	for (unsigned ev = 0; ev < nev && (ev < 3 || dp.more()); ev++) {
		unsigned kind = dp.weighted({3, 4, 3, 12});
		const SegRef &sg = segs[dp.pick((unsigned) segs.size())];
		int node = dp.chance(25) ? nodes[dp.pick((unsigned) nodes.size())] : sg.node;
		uint8_t num = dp.chance(25) ? dp.u8() : sg.addr;
		ref::Msg m;
		m.addr = n.bus.nodes[(size_t) node].addr;
		just_freed.clear();
		auto freed = [&](uint8_t number) {
			for (auto &s : segs) if (s.node == node && s.addr == number) just_freed.insert(s.id);
		};
		if (kind == 0) { m.type = M::BM_OCC; m.data = {num}; }
		else if (kind == 1) { m.type = M::BM_FREE; m.data = {num}; freed(num); }
		else if (kind == 2) {
			uint8_t base = (uint8_t) (num & 0xF8), size = (uint8_t) (8 * dp.range(1, 3));
			if (base + size > 255) { base = 0; }
			m.type = M::BM_MULTIPLE;
			m.data = {base, size};
			for (int i = 0; i < size / 8; i++) m.data.push_back(dp.chance(150) ? dp.u8() : 0);
			for (int i = 0; i < size; i++) if (!((m.data[2 + (size_t) i / 8] >> (i % 8)) & 1)) freed((uint8_t) (base + i));
		} else {
			m.type = M::BM_ADDRESS;
			m.data = {num};
			if (dp.chance(40)) { m.data.push_back(0); m.data.push_back(0); }
			else {
				int cnt = dp.range(1, 4);
				std::set<int> in_list;          // a detector lists every decoder once
				for (int i = 0; i < cnt; i++) {
					uint8_t l, h;
					if (!n.c.trains.empty() && dp.chance(215)) { auto &t = n.c.trains[dp.pick((unsigned) n.c.trains.size())]; l = t.addrl; h = t.addrh; }
					else { l = dp.u8(); h = (uint8_t) dp.pick(64); }
					int key = h << 8 | l;
					if (!in_list.insert(key).second) { ctx.count("excluded:same-decoder-twice-in-one-address-list"); continue; }
					if (!orient.count(key) || dp.chance(40)) orient[key] = dp.flag() ? 0x80 : 0;
					uint8_t top = dp.chance(30) ? (uint8_t) (dp.flag() ? 0x40 : 0xC0) : (uint8_t) orient[key];
					if (l == 0 && h == 0 && top == 0) { l = 1; if (!in_list.insert(h << 8 | l).second) continue; }   // 0x0000 alone is the free form
					m.data.push_back(l);
					m.data.push_back((uint8_t) (h | top));
				}
			}
		}
		last_event = "rx " + ref::show(m);
		ctx.desc << "  " << last_event << "\n";
		uint64_t t_inj = vf_now_us();
		n.bus.send_from(node, m.type, m.data);
		n.s.settle();
		Boundary B;
		B.t_from = t_inj;
		boundary(B);
		hist.back().t_to = vf_now_us();
		hist.push_back(B);
		for (auto &t : n.c.trains) {
			if (hist.size() >= 2 && hist[hist.size() - 2].trains[t.id].pos != B.trains[t.id].pos) pos_changes[t.id]++;
			if (B.trains[t.id].pos.size() >= 2) multi_seg = true;
		}
		{
			std::map<std::string, int> per_seg;
			for (auto &t : n.c.trains) for (auto &s : B.trains[t.id].pos) per_seg[s]++;
			for (auto &kv : per_seg) if (kv.second >= 2) shared_seg = true;
		}
		if (dp.chance(60)) vf_usleep((unsigned) dp.range(1, 10) * 1000);
	}
	hist.back().t_to = UINT64_MAX;
	stop = true;
	int guard = 0;
	while (done < (int) nreaders && guard++ < 100000) vf_usleep(2000);
	if (done < (int) nreaders) ctx.fail("HANG: getter threads did not finish");
	for (unsigned r = 0; r < nreaders; r++) vf_pthread_join(th[r], nullptr);
	unsigned long nobs = 0;
	for (auto &r : rd)
		for (auto &ob : r.obs) {
			nobs++;
			bool ok = false;
			for (auto &B : hist) {
				if (B.t_to < ob.ts || B.t_from > ob.te) continue;
				if (ob.what == 0) { auto &tv = B.trains[ob.id]; if (tv.pos == ob.tv.pos && (tv.pos.empty() || true)) ok = true; }
				else if (ob.what == 1) { if (B.trains[ob.id].on_track == ob.tv.on_track) ok = true; }
				else if (B.segs[ob.id] == ob.seg) ok = true;
				if (ok) break;
			}
			if (!ok) {
				std::string what = ob.what == 0 ? "bidib_get_train_position(" + ob.id + ")" : ob.what == 1 ? "bidib_get_train_on_track(" + ob.id + ")" : "bidib_get_segment_state(" + ob.id + ")";
				ctx.fail("CONCURRENT-GETTER: " + what + " called in [" + std::to_string(ob.ts) + "," + std::to_string(ob.te) + "] us returned a value that existed at no message boundary inside that window (lagging or torn result)");
			}
		}
	unsigned preempt = vf_preemptions_taken();
	n.s.stop();
	std::string an = lifecycle_anomalies(true);
	if (!an.empty()) ctx.fail("LIFECYCLE: " + an);
	bool changed_twice = false;
	for (auto &kv : pos_changes) if (kv.second >= 2) changed_twice = true;
	if (changed_twice) ctx.tag("train-position-changed>=2x");
	if (multi_seg) ctx.tag("train-on>=2-segments");
	if (shared_seg) ctx.tag(">=2-trains-in-one-segment");
	if (nreaders) ctx.tag(preempt ? "concurrent-getters+preemption" : "concurrent-getters");
	ctx.count("concurrent-getter-observations", (long) nobs);
	ctx.count("message-boundaries", (long) hist.size());
	ctx.nontrivial = changed_twice || multi_seg || shared_seg;
	ctx.hash_src = ctx.desc.str() + (nreaders ? hex(sched) : "");
}

PropReg reg({"C08", prop,
             "non-trivial: a train's segment set changed >=2 times, or a train occupied >=2 segments, or >=2 trains shared a "
             "segment; cases with concurrent getter threads tagged; distinct = distinct (configuration, history, schedule)",
             1100, 40, false});

}  // namespace
