// C09 — High-level commands emit exactly the configured messages, or nothing (return 1).
//
// Domain: generated configuration + node tree with a generated connected subset; after startup a
// generated sequence of high-level calls: every kind of configured id x defined / undefined /
// foreign aspects, unknown ids, ids on disconnected boards, NULL arguments, speeds -130..130,
// calibrated speeds -10..10 with/without calibration, every function x state (0,1 and out of
// range), booster on/off, track-output states, reverser requests. Order matters (function
// groups depend on history).
// Oracle: R-encode for the high-level layer (written from the header documentation and the
// BiDiB message tables): valid -> returns 0, the downlink delta after flush is exactly the
// prescribed message(s) to the owning board's current address, and only the commanded entity
// changes in the snapshot (optimistic update); invalid -> returns 1, empty delta, snapshot unchanged.
#include "harness/normal.hpp"
#include "harness/snapshot.hpp"
#include "ref/msgs.hpp"
#include <cstring>
#include <algorithm>

using namespace vf;

namespace {

struct Expect {
	bool valid = false;
	std::vector<ref::Msg> msgs;
	std::vector<std::vector<uint8_t>> masks;   // per message: data mask (0xFF = compare), empty = compare all
	std::string entity;                        // snapshot line prefix that may change ("" = none)
	std::string why;
};

const char *cstr(const std::string &s, bool null) { return null ? nullptr : s.c_str(); }

std::vector<std::string> lines(const std::string &s) {
	std::vector<std::string> v;
	std::istringstream is(s);
	std::string l;
	while (std::getline(is, l)) v.push_back(l);
	return v;
}

void prop(DP &dp, const ref::Bytes &sched, Ctx &ctx) {
	Normal n;
	NormalOpts o;
	o.gen.need_track_output = dp.chance(200);
	o.present_mode = dp.chance(150) ? 1 : 0;
	n.prepare(dp, sched, o);
	// reserved function bits 5..7 are covered by a dedicated expectation (rejected), see below
	ctx.desc << "C09 " << n.c.summary() << "\n bus: " << n.bus.describe() << "\n";
	if (n.start() != 0) ctx.fail("START: valid configuration rejected");
	n.s.settle();
	const cfg::Config &c = n.c;
	auto ra = [&](const std::string &board) {
		int i = n.bus.node_of_board(board);
		return i >= 0 ? n.bus.nodes[(size_t) i].addr : ref::Bytes();
	};
	// function model: train -> bit -> state, initialised from the library after startup (C20 checks startup)
	std::map<std::string, std::map<int, int>> fn;
	for (auto &t : c.trains)
		for (auto &p : t.periphs) {
			t_bidib_train_peripheral_state_query q = bidib_get_train_peripheral_state(t.id.c_str(), p.id.c_str());
			fn[t.id][p.bit] = q.available ? q.state : 0;
		}
	// id pools
	std::vector<std::string> boards, trains;
	for (auto &b : c.boards) boards.push_back(b.id);
	for (auto &t : c.trains) trains.push_back(t.id);
	auto pick_board = [&](bool &null) {
		null = false;
		unsigned k = dp.weighted({12, 2, 1});
		if (k == 1 || boards.empty()) return std::string("no_such_board");
		if (k == 2) { null = true; return std::string(); }
		return boards[dp.pick((unsigned) boards.size())];
	};
	auto pick_train = [&](bool &null) {
		null = false;
		unsigned k = dp.weighted({12, 2, 1});
		if (k == 1 || trains.empty()) return std::string("no_such_train");
		if (k == 2) { null = true; return std::string(); }
		return trains[dp.pick((unsigned) trains.size())];
	};
	auto fmt_of = [](const cfg::Train &t) { return (uint8_t) (t.steps == 28 ? 2 : t.steps == 126 ? 3 : 0); };
	auto train_of = [&](const std::string &id) -> const cfg::Train * {
		for (auto &t : c.trains) if (t.id == id) return &t;
		return nullptr;
	};
	auto output_ok = [&](const std::string &bid) {
		const cfg::Board *b = c.board(bid);
		return b && n.connected(bid) && b->is_track_output();
	};

	unsigned ncmd = (unsigned) dp.range(1, 25);
	bool any_ok = false, any_rej = false, fn_after_fn = false;
	std::set<std::string> fn_groups_touched;
	for (unsigned k = 0; k < ncmd && (k < 2 || dp.more()); k++) {
		Expect e;
		std::string before = snapshot_text();
		size_t mark = n.bus.tx.size();
		int rc = -1;
		std::ostringstream call;
		unsigned kind = dp.weighted({5, 4, 4, 6, 3, 2, 6, 2, 2, 2});
		if (kind <= 2) {
			// point / signal / peripheral
			struct Item { const cfg::Board *b; int type; const cfg::BoardAcc *ba; const cfg::DccAcc *da; const cfg::Periph *pe; std::string id; };
			std::vector<Item> items;
			for (auto &b : c.boards) {
				if (!b.in_track) continue;
				if (kind == 0) { for (auto &x : b.points_board) items.push_back({&b, 0, &x, nullptr, nullptr, x.id}); for (auto &x : b.points_dcc) items.push_back({&b, 1, nullptr, &x, nullptr, x.id}); }
				if (kind == 1) { for (auto &x : b.signals_board) items.push_back({&b, 0, &x, nullptr, nullptr, x.id}); for (auto &x : b.signals_dcc) items.push_back({&b, 1, nullptr, &x, nullptr, x.id}); }
				if (kind == 2) for (auto &x : b.peripherals) items.push_back({&b, 2, nullptr, nullptr, &x, x.id});
			}
			bool idnull = false, aspnull = false;
			std::string id = "no_such_id", asp = "no_such_aspect";
			const Item *it = nullptr;
			unsigned ik = dp.weighted({12, 2, 1});
			if (ik == 0 && !items.empty()) { it = &items[dp.pick((unsigned) items.size())]; id = it->id; }
			else if (ik == 2) idnull = true;
			std::vector<std::string> aspects;
			if (it) {
				if (it->ba) for (auto &a : it->ba->aspects) aspects.push_back(a.id);
				if (it->da) for (auto &a : it->da->aspects) aspects.push_back(a.id);
				if (it->pe) for (auto &a : it->pe->aspects) aspects.push_back(a.id);
			}
			unsigned ak = dp.weighted({12, 3, 1});
			if (ak == 0 && !aspects.empty()) asp = aspects[dp.pick((unsigned) aspects.size())];
			else if (ak == 2) aspnull = true;
			static const char *fnn[] = {"bidib_switch_point", "bidib_set_signal", "bidib_set_peripheral"};
			call << fnn[kind] << "(" << (idnull ? "NULL" : id) << ", " << (aspnull ? "NULL" : asp) << ")";
			if (it && !idnull && !aspnull && n.connected(it->b->id)) {
				ref::Bytes addr = ra(it->b->id);
				if (it->ba) {
					for (auto &a : it->ba->aspects) if (a.id == asp) {
						e.valid = true;
						e.msgs.push_back({addr, 0, M::ACCESSORY_SET, {it->ba->number, a.value}});
					}
				} else if (it->da) {
					for (auto &a : it->da->aspects) if (a.id == asp) {
						e.valid = true;
						for (auto &p : a.ports)
							e.msgs.push_back({addr, 0, M::CS_ACCESSORY, {it->da->addrl, it->da->addrh, (uint8_t) ((p.port & 0x1F) | (p.value << 5) | (it->da->extended << 7)), 0}});
						e.entity = std::string(kind == 0 ? "dccpoint " : "dccsignal ") + id + " ";
					}
				} else {
					for (auto &a : it->pe->aspects) if (a.id == asp) {
						e.valid = true;
						e.msgs.push_back({addr, 0, M::LC_OUTPUT, {it->pe->port0, it->pe->port1, a.value}});
					}
				}
			}
			if (kind == 0) rc = bidib_switch_point(cstr(id, idnull), cstr(asp, aspnull));
			else if (kind == 1) rc = bidib_set_signal(cstr(id, idnull), cstr(asp, aspnull));
			else rc = bidib_set_peripheral(cstr(id, idnull), cstr(asp, aspnull));
			if (e.valid && it->da) {
				// optimistic state: the accessory reports the commanded aspect
				t_bidib_unified_accessory_state_query q = kind == 0 ? bidib_get_point_state(id.c_str()) : bidib_get_signal_state(id.c_str());
				bool ok = q.known && q.type == BIDIB_ACCESSORY_DCC && q.dcc_accessory_state.state_id && asp == q.dcc_accessory_state.state_id;
				bidib_free_unified_accessory_state_query(q);
				if (rc == 0 && !ok) ctx.fail("STATE: " + call.str() + " returned 0 but the accessory does not report aspect " + asp);
			}
		} else if (kind == 3 || kind == 4 || kind == 5) {
			bool tnull, bnull;
			std::string t = pick_train(tnull), b = pick_board(bnull);
			const cfg::Train *tr = tnull ? nullptr : train_of(t);
			int speed = 0;
			if (kind == 3) {
				speed = dp.chance(40) ? dp.range(-130, 130) : dp.chance(80) ? (dp.flag() ? 126 : -126) : dp.chance(60) ? 0 : dp.range(-126, 126);
				call << "bidib_set_train_speed(" << (tnull ? "NULL" : t) << ", " << speed << ", " << (bnull ? "NULL" : b) << ")";
			} else if (kind == 4) {
				speed = dp.range(-10, 10);
				call << "bidib_set_calibrated_train_speed(" << (tnull ? "NULL" : t) << ", " << speed << ", " << (bnull ? "NULL" : b) << ")";
			} else call << "bidib_emergency_stop_train(" << (tnull ? "NULL" : t) << ", " << (bnull ? "NULL" : b) << ")";
			bool pre_fwd = true;
			if (tr) {
				t_bidib_train_state_query tq = bidib_get_train_state(t.c_str());
				if (tq.known) pre_fwd = tq.data.set_is_forwards;
				bidib_free_train_state_query(tq);
			}
			int lib_speed = speed;
			bool in_range = true;
			if (kind == 3) in_range = speed >= -126 && speed <= 126;
			if (kind == 4) {
				in_range = speed >= -9 && speed <= 9 && tr && tr->calibration.size() == 9;
				if (in_range) lib_speed = speed == 0 ? 0 : (speed > 0 ? tr->calibration[(size_t) speed - 1] : -tr->calibration[(size_t) (-speed) - 1]);
			}
			if (tr && !bnull && !tnull && output_ok(b) && in_range) {
				e.valid = true;
				uint8_t sb;
				if (kind == 5) sb = 0x01;       // emergency stop code (direction bit not compared)
				else {
					bool fwd = lib_speed > 0 ? true : lib_speed < 0 ? false : pre_fwd;
					unsigned a = (unsigned) (lib_speed < 0 ? -lib_speed : lib_speed);
					sb = (uint8_t) ((fwd ? 0x80 : 0) | (a ? a + 1 : 0));
				}
				e.msgs.push_back({ra(b), 0, M::CS_DRIVE, {tr->addrl, tr->addrh, fmt_of(*tr), 0x01, sb, 0, 0, 0, 0}});
				e.masks.push_back({0xFF, 0xFF, 0xFF, 0xFF, (uint8_t) (kind == 5 ? 0x7F : 0xFF), 0, 0, 0, 0});
				e.entity = "train " + t + " ";
			}
			if (kind == 3) rc = bidib_set_train_speed(cstr(t, tnull), speed, cstr(b, bnull));
			else if (kind == 4) rc = bidib_set_calibrated_train_speed(cstr(t, tnull), speed, cstr(b, bnull));
			else rc = bidib_emergency_stop_train(cstr(t, tnull), cstr(b, bnull));
			if (e.valid && rc == 0) {
				t_bidib_train_state_query tq = bidib_get_train_state(t.c_str());
				int got_step = tq.known ? tq.data.set_speed_step : -9999;
				bool got_fwd = tq.known ? tq.data.set_is_forwards : false;
				bidib_free_train_state_query(tq);
				int want = kind == 5 ? 0 : lib_speed;
				if (got_step != want) ctx.fail("STATE: " + call.str() + " returned 0 but the tracked speed step is " + std::to_string(got_step) + ", expected " + std::to_string(want));
				if (kind != 5 && lib_speed != 0 && got_fwd != (lib_speed > 0)) ctx.fail("STATE: " + call.str() + ": tracked direction wrong");
				if (kind != 5 && lib_speed == 0 && got_fwd != pre_fwd) ctx.fail("STATE: " + call.str() + ": direction not kept at speed 0");
			}
		} else if (kind == 6) {
			bool tnull, bnull, pnull = false;
			std::string t = pick_train(tnull), b = pick_board(bnull);
			const cfg::Train *tr = tnull ? nullptr : train_of(t);
			std::string p = "no_such_function";
			const cfg::TrainPeriph *tp = nullptr;
			unsigned pk = dp.weighted({12, 2, 1});
			if (pk == 0 && tr && !tr->periphs.empty()) { tp = &tr->periphs[dp.pick((unsigned) tr->periphs.size())]; p = tp->id; }
			else if (pk == 2) pnull = true;
			uint8_t state = dp.chance(230) ? (uint8_t) dp.pick(2) : dp.u8();
			call << "bidib_set_train_peripheral(" << (tnull ? "NULL" : t) << ", " << (pnull ? "NULL" : p) << ", " << (int) state << ", " << (bnull ? "NULL" : b) << ")";
			if (tr && tp && !pnull && !bnull && output_ok(b) && state <= 1 && !(tp->bit >= 5 && tp->bit <= 7)) {
				e.valid = true;
				int bit = tp->bit;
				int lo, hi, act, byte;
				if (bit < 5) { lo = 0; hi = 4; act = 1 << 1; byte = 0; }
				else if (bit < 12) { lo = 8; hi = 11; act = 1 << 2; byte = 1; }
				else if (bit < 16) { lo = 12; hi = 15; act = 1 << 3; byte = 1; }
				else if (bit < 24) { lo = 16; hi = 23; act = 1 << 4; byte = 2; }
				else { lo = 24; hi = 31; act = 1 << 5; byte = 3; }
				std::string gkey = t + "/" + std::to_string(lo);
				if (fn_groups_touched.count(gkey)) fn_after_fn = true;
				fn_groups_touched.insert(gkey);
				uint8_t fb = 0, mask = 0;
				fn[t][bit] = state;
				for (auto &q : tr->periphs)
					if (q.bit >= lo && q.bit <= hi && fn[t][q.bit]) fb |= (uint8_t) (1 << (q.bit % 8));
				for (int x = lo; x <= hi; x++) mask |= (uint8_t) (1 << (x % 8));
				ref::Bytes d = {tr->addrl, tr->addrh, fmt_of(*tr), (uint8_t) act, 0, 0, 0, 0, 0};
				d[5 + (size_t) byte] = fb;
				std::vector<uint8_t> mk = {0xFF, 0xFF, 0xFF, 0xFF, 0, 0, 0, 0, 0};   // speed is not part of an inactive group
				mk[5 + (size_t) byte] = mask;
				e.msgs.push_back({ra(b), 0, M::CS_DRIVE, d});
				e.masks.push_back(mk);
				e.entity = "train " + t + " ";
			}
			rc = bidib_set_train_peripheral(cstr(t, tnull), cstr(p, pnull), state, cstr(b, bnull));
			if (e.valid && rc == 0) {
				t_bidib_train_peripheral_state_query q = bidib_get_train_peripheral_state(t.c_str(), p.c_str());
				if (!q.available || q.state != state) ctx.fail("STATE: " + call.str() + " returned 0 but the tracked function state is " + std::to_string(q.state));
				// the other functions of the train keep their values
				for (auto &qq : tr->periphs) {
					t_bidib_train_peripheral_state_query o2 = bidib_get_train_peripheral_state(t.c_str(), qq.id.c_str());
					if (o2.available && o2.state != fn[t][qq.bit]) ctx.fail("STATE: " + call.str() + " changed function " + qq.id + " of the same train");
				}
			}
		} else if (kind == 7) {
			bool bnull;
			std::string b = pick_board(bnull);
			bool on = dp.flag();
			call << "bidib_set_booster_power_state(" << (bnull ? "NULL" : b) << ", " << on << ")";
			const cfg::Board *bd = c.board(b);
			if (!bnull && bd && n.connected(b) && bd->is_booster()) {
				e.valid = true;
				e.msgs.push_back({ra(b), 0, on ? M::BOOST_ON : M::BOOST_OFF, {1}});
			}
			rc = bidib_set_booster_power_state(cstr(b, bnull), on);
		} else if (kind == 8) {
			bool bnull;
			std::string b = pick_board(bnull);
			static const uint8_t st[] = {0x00, 0x01, 0x02, 0x03, 0x04, 0x08};
			uint8_t state = st[dp.pick(sizeof st)];
			call << "bidib_set_track_output_state(" << (bnull ? "NULL" : b) << ", " << (int) state << ")";
			if (!bnull && output_ok(b)) {
				e.valid = true;
				e.msgs.push_back({ra(b), 0, M::CS_SET_STATE, {state}});
			}
			rc = bidib_set_track_output_state(cstr(b, bnull), (t_bidib_cs_state) state);
		} else {
			bool bnull, rnull = false;
			std::string b = pick_board(bnull);
			std::string r = "no_such_reverser", cv;
			std::vector<std::pair<std::string, std::string>> revs;
			for (auto &bb : c.boards) if (bb.in_track) for (auto &x : bb.reversers) revs.push_back({x.id, x.cv});
			unsigned rk = dp.weighted({12, 2, 1});
			bool known = false;
			if (rk == 0 && !revs.empty()) { auto &pr = revs[dp.pick((unsigned) revs.size())]; r = pr.first; cv = pr.second; known = true; }
			else if (rk == 2) rnull = true;
			call << "bidib_request_reverser_state(" << (rnull ? "NULL" : r) << ", " << (bnull ? "NULL" : b) << ")";
			if (known && !rnull && !bnull && c.board(b) && n.connected(b)) {
				e.valid = true;
				ref::Bytes d;
				d.push_back((uint8_t) cv.size());
				d.insert(d.end(), cv.begin(), cv.end());
				e.msgs.push_back({ra(b), 0, M::VENDOR_GET, d});
				e.entity = "reverser " + r + " ";
			}
			rc = bidib_request_reverser_state(cstr(r, rnull), cstr(b, bnull));
		}
		bidib_flush();
		ctx.desc << "  " << call.str() << " -> " << rc << (e.valid ? "  [valid]" : "  [invalid]") << "\n";
		if (!n.bus.decode_error.empty()) ctx.fail("FRAMING: " + n.bus.decode_error);
		std::vector<TxRec> delta = n.bus.since(mark);
		std::string after = snapshot_text();
		if (e.valid) {
			if (rc != 0) ctx.fail("REJECTED-VALID: " + call.str() + " names configured, connected equipment and defined values but returned " + std::to_string(rc));
			bool same = delta.size() == e.msgs.size();
			for (size_t i = 0; same && i < delta.size(); i++) {
				const ref::Msg &g = delta[i].m, &w = e.msgs[i];
				if (g.addr != w.addr || g.type != w.type || g.data.size() != w.data.size()) { same = false; break; }
				for (size_t j = 0; j < w.data.size(); j++) {
					uint8_t mk = i < e.masks.size() && j < e.masks[i].size() ? e.masks[i][j] : 0xFF;
					if ((g.data[j] & mk) != (w.data[j] & mk)) same = false;
				}
			}
			if (!same) {
				std::string d = "sent:";
				for (auto &x : delta) d += " " + ref::show(x.m);
				d += " expected:";
				for (auto &x : e.msgs) d += " " + ref::show(x);
				ctx.fail("MESSAGES: " + call.str() + " " + d);
			}
			// only the commanded entity may change
			auto lb = lines(before), la = lines(after);
			if (lb.size() != la.size()) ctx.fail("STATE: " + call.str() + " changed the number of entities in the snapshot");
			for (size_t i = 0; i < lb.size(); i++)
				if (lb[i] != la[i] && (e.entity.empty() || la[i].rfind(e.entity, 0) != 0))
					ctx.fail("STATE: " + call.str() + " changed an entity it does not address: '" + lb[i] + "' -> '" + la[i] + "'");
			any_ok = true;
			ctx.count("accepted");
		} else {
			if (rc != 1) ctx.fail("ACCEPTED-INVALID: " + call.str() + " names unknown / disconnected equipment, an undefined aspect or an out-of-range value but returned " + std::to_string(rc));
			if (!delta.empty()) ctx.fail("ACCEPTED-INVALID: " + call.str() + " returned 1 but submitted " + ref::show(delta[0].m));
			if (before != after) ctx.fail("STATE: rejected command " + call.str() + " changed the tracked state");
			any_rej = true;
			ctx.count("rejected");
		}
		n.s.settle();          // let the answers of the simulated bus arrive before the next command
	}
	n.s.stop();
	std::string an = lifecycle_anomalies(true);
	if (!an.empty()) ctx.fail("LIFECYCLE: " + an);
	ctx.nontrivial = any_ok && any_rej;
	if (fn_after_fn) ctx.tag("function-after-function-same-group");
	if (any_ok) ctx.tag("accepted-command");
	if (any_rej) ctx.tag("rejected-command");
	ctx.hash_src = ctx.desc.str();
}

PropReg reg({"C09", prop,
             "non-trivial: the sequence contains >=1 accepted and >=1 rejected command; sequences with a function command "
             "following another function command of the same group are tagged; distinct = distinct (configuration, tree, call sequence)",
             1100, 0, false});

}  // namespace
