// C10 — Documented thread-safe API is race-free and atomic under concurrent use.
//
// One property, run in two flavours of the same harness:
//   * scheduled (`asanfn`): all threads under the deterministic baton scheduler with a generated schedule
//     (preemption at every lock operation), AddressSanitizer, the library compiled with
//     -finstrument-functions for the lock-contract monitor;
//   * free-running (`tsan`): real parallel threads under ThreadSanitizer, generated delays at every lock
//     operation; a ThreadSanitizer report with a libbidib frame is a violation, except reports whose
//     stacks contain bidib_start_*, bidib_stop, bidib_send_sys_reset or bidib_communication_works
//     (outside the documented contract, README "Threadsafety").
// Domain: normal-mode session (generated configuration, all boards on the bus, auto-flush on or off),
// 2..4 (scheduled) / 2..12 (free-running) application threads, continuous generated uplink traffic
// injected by the main thread one message per packet. Thread plans are of two kinds:
//   mix    any call of the documented thread-safe API (every getter, high-level setters, admin calls,
//          low-level senders, flush, queue readers) with valid / unknown / NULL / foreign arguments;
//   watch  entity getters only (train, segment, point, signal, peripheral, reverser, booster, track
//          output state) whose results are recorded with the window of the call.
// Oracle: (1) no ThreadSanitizer / AddressSanitizer report; (2) every internal accessor reached is called
// with the locks its header comment demands (table generated from the tree's *_intern.h); (3) every
// watched getter result equals the reference value (props/state_model.hpp, folded by the main thread) of
// the entity at SOME message boundary inside the window of the call - no torn or half-updated entity;
// (4) no lock held by an application thread when its calls return, nothing held after stop;
// once-only delivery of queued messages to concurrent readers is C06's concurrent phase.
#include "props/api_calls.hpp"
#include "props/state_model.hpp"
#include "props/known_traffic.hpp"
#include "harness/contracts.hpp"
#include <cstring>
#include <algorithm>

using namespace vf;

extern "C" {
extern pthread_mutex_t trackstate_accessories_mutex, trackstate_peripherals_mutex, trackstate_segments_mutex, trackstate_reversers_mutex,
    trackstate_trains_mutex, trackstate_boosters_mutex, trackstate_track_outputs_mutex;
}

namespace {

struct Obs { uint64_t ts, te; std::string key, line; };
struct Watch { int kind; std::string id; };
struct Plan {
	std::vector<api::Call> calls;
	std::vector<Watch> watches;
	std::vector<Obs> obs;
	ref::Bytes pauses;
	int *done;
	std::string violation;
};

// A prober is a reader that the scheduler runs exactly at every release of one track-state mutex by another thread
// (vf_wait_release): if an update of an entity is split over two critical sections, the half-updated entity is visible
// precisely there. Scheduled flavour only.
struct Prober {
	const void *lock = nullptr;
	std::string lock_name;
	std::vector<Watch> targets;
	std::vector<Obs> obs;
	ref::Bytes picks;
	size_t max_obs = 120;
};

std::string chomp(const std::string &s) { return !s.empty() && s.back() == '\n' ? s.substr(0, s.size() - 1) : s; }

// one watched getter call rendered in the format of StateModel::lines()
void watch_call(const Watch &w, Obs &o) {
	std::ostringstream os;
	o.ts = vf_now_us();
	switch (w.kind) {
	case 0: { t_bidib_train_state_query q = bidib_get_train_state(w.id.c_str()); if (q.known) render_train(os, w.id.c_str(), q.data); bidib_free_train_state_query(q); o.key = "train " + w.id; break; }
	case 1: { t_bidib_segment_state_query q = bidib_get_segment_state(w.id.c_str()); if (q.known) render_segment(os, w.id.c_str(), q.data); bidib_free_segment_state_query(q); o.key = "segment " + w.id; break; }
	case 2: case 3: {
		t_bidib_unified_accessory_state_query q = w.kind == 2 ? bidib_get_point_state(w.id.c_str()) : bidib_get_signal_state(w.id.c_str());
		if (q.known && q.type == BIDIB_ACCESSORY_BOARD) { t_bidib_board_accessory_state a = {(char *) w.id.c_str(), q.board_accessory_state}; render_board_acc(os, w.kind == 2 ? "point" : "signal", a); o.key = std::string(w.kind == 2 ? "point " : "signal ") + w.id; }
		else if (q.known) { t_bidib_dcc_accessory_state a = {(char *) w.id.c_str(), q.dcc_accessory_state}; render_dcc_acc(os, w.kind == 2 ? "dccpoint" : "dccsignal", a); o.key = std::string(w.kind == 2 ? "dccpoint " : "dccsignal ") + w.id; }
		bidib_free_unified_accessory_state_query(q);
		break;
	}
	case 4: { t_bidib_peripheral_state_query q = bidib_get_peripheral_state(w.id.c_str());
		if (q.available) os << "peripheral " << w.id << " state_id=" << s_or(q.data.state_id) << " value=" << (int) q.data.state_value << " unit=" << (int) q.data.time_unit << " wait=" << (int) q.data.wait;
		bidib_free_peripheral_state_query(q); o.key = "peripheral " + w.id; break; }
	case 5: { t_bidib_reverser_state_query q = bidib_get_reverser_state(w.id.c_str());
		if (q.available) os << "reverser " << w.id << " state_id=" << s_or(q.data.state_id) << " value=" << (int) q.data.state_value;
		bidib_free_reverser_state_query(q); o.key = "reverser " + w.id; break; }
	case 6: { t_bidib_booster_state_query q = bidib_get_booster_state(w.id.c_str()); if (q.known) render_booster(os, w.id.c_str(), q.data, true); o.key = "booster " + w.id; break; }
	default: { t_bidib_track_output_state_query q = bidib_get_track_output_state(w.id.c_str()); if (q.known) os << "output " << w.id << " cs=" << (int) q.cs_state; o.key = "output " + w.id; break; }
	}
	o.te = vf_now_us();
	o.line = chomp(os.str());
}

void *prober_main(void *p) {
	Prober *pr = (Prober *) p;
	size_t k = 0;
	while (pr->obs.size() < pr->max_obs && vf_wait_release(pr->lock) == 0) {
		const Watch &w = pr->targets[pr->picks[k++ % pr->picks.size()] % pr->targets.size()];
		Obs o;
		watch_call(w, o);
		if (!o.key.empty()) pr->obs.push_back(o);
	}
	return nullptr;
}

void *thread_main(void *p) {
	Plan *pl = (Plan *) p;
	size_t k = 0;
	for (auto &c : pl->calls) {
		c.run();
		if (vf_held_count(vf_self()) > 0 && pl->violation.empty()) { char b[300]; vf_describe_held(b, sizeof b); pl->violation = "BALANCE: " + c.text + " returned while its thread holds " + b; }
		if (!pl->pauses.empty()) { uint8_t d = pl->pauses[k++ % pl->pauses.size()]; if (d < 60) vf_usleep((unsigned) (1 + d) * 200); }
	}
	for (auto &w : pl->watches) {
		Obs o;
		watch_call(w, o);
		if (!o.key.empty()) pl->obs.push_back(o);
		// half of the time the next getter follows at once: CPU time costs nothing in virtual time, so a thread that sleeps
		// between its calls is almost never in the middle of one when the receiver thread wakes up
		if (!pl->pauses.empty()) { uint8_t d = pl->pauses[k++ % pl->pauses.size()]; if (d >= 128) vf_usleep((unsigned) (1 + d % 40) * 300); }
	}
	__atomic_fetch_add(pl->done, 1, __ATOMIC_RELAXED);
	return nullptr;
}

void prop(DP &dp, const ref::Bytes &sched, Ctx &ctx) {
	const bool free_run = vf_free_running();
	Normal n;
	NormalOpts o;
	o.gen.max_items = 2;
	o.gen.need_track_output = dp.chance(220);
	o.gen.need_segments = dp.chance(200);
	o.present_mode = 1;
	n.prepare(dp, sched, o);
	unsigned flush = dp.chance(128) ? 5 : 0;
	ctx.desc << "C10 " << (free_run ? "[free-running/TSan] " : "[scheduled] ") << n.c.summary() << "\n bus: " << n.bus.describe() << " auto-flush=" << flush << "ms\n";
	if (n.start(flush) != 0) {
		// free-running flavour: the connection probe of bidib_start has a (scaled) wall-clock timeout; on a loaded machine the
		// receiver thread may simply not have run in time. That says nothing about thread safety: the case is inconclusive.
		if (free_run) { ctx.tag("inconclusive:start-timed-out-under-load"); return; }
		ctx.fail("START: valid configuration rejected");
	}
	n.s.settle();
	n.bus.silent = true;
	Session::drain_messages();
	Session::drain_errors();
	api::Pools P = api::pools_of(n);
	StateModel M_;
	M_.init(n.c);

	// ---- "owners" case: every thread owns one function of the same train and switches it on / off several times;
	// whatever the interleaving, each function must end with its owner's last value (in the tracked state and in the last
	// drive message on the wire) - a lost update means two calls were not atomic with respect to each other
	{
		const cfg::Train *tr = nullptr;
		std::string out;
		for (auto &t : n.c.trains) if (t.periphs.size() >= 2 && (!tr || t.periphs.size() > tr->periphs.size())) tr = &t;
		for (auto &b : n.c.boards) if (b.is_track_output() && n.connected(b.id)) out = b.id;
		if (tr && !out.empty() && dp.chance(150)) {
			size_t k = tr->periphs.size();
			int done2 = 0;
			std::vector<std::unique_ptr<Plan>> pls;
			std::vector<int> last(k, -1);
			ctx.desc << " owners case: train " << tr->id << " via " << out << "\n";
			for (size_t t = 0; t < k; t++) {
				std::unique_ptr<Plan> pl(new Plan);
				pl->done = &done2;
				pl->pauses = dp.bytes((size_t) dp.range(1, 6));
				int reps = dp.range(1, 5);
				for (int i = 0; i < reps; i++) {
					uint8_t v = (uint8_t) dp.pick(2);
					std::string tid = tr->id, pid = tr->periphs[t].id, ob = out;
					api::Call c;
					c.text = "bidib_set_train_peripheral(" + tid + ", " + pid + ", " + std::to_string(v) + ", " + ob + ")";
					c.run = [tid, pid, v, ob] { bidib_set_train_peripheral(tid.c_str(), pid.c_str(), v, ob.c_str()); };
					pl->calls.push_back(c);
					last[t] = v;
				}
				ctx.desc << "  thread " << t << " owns " << tr->periphs[t].id << " (bit " << (int) tr->periphs[t].bit << "), last value " << last[t] << "\n";
				pls.push_back(std::move(pl));
			}
			// two more kinds of thread: a "driver" that owns the speed of the train (speed / emergency stop commands) and a
			// "flusher" that empties the send buffer at generated moments, i.e. also in the middle of the others' calls: the
			// command's own acknowledgement can then be on its way before the call returns. A high-level drive command marks
			// the train "acknowledgement pending" and the receiver thread records the acknowledgement; if the two are not
			// ordered like their messages, the train stays "pending" although its last command was acknowledged.
			bool any_drive = false;
			if (dp.chance(200)) {
				std::unique_ptr<Plan> pl(new Plan);
				pl->done = &done2;
				pl->pauses = dp.bytes((size_t) dp.range(1, 6));
				int reps = dp.range(1, 6);
				ctx.desc << "  driver thread:";
				for (int i = 0; i < reps; i++) {
					std::string tid = tr->id, ob = out;
					api::Call c;
					if (dp.chance(110)) {
						c.text = "bidib_emergency_stop_train(" + tid + ", " + ob + ")";
						c.run = [tid, ob] { bidib_emergency_stop_train(tid.c_str(), ob.c_str()); };
					} else {
						int sp = dp.range(-14, 14);
						c.text = "bidib_set_train_speed(" + tid + ", " + std::to_string(sp) + ", " + ob + ")";
						c.run = [tid, sp, ob] { bidib_set_train_speed(tid.c_str(), sp, ob.c_str()); };
					}
					ctx.desc << " " << c.text << ";";
					pl->calls.push_back(c);
				}
				ctx.desc << "\n";
				pls.push_back(std::move(pl));
				any_drive = true;
			}
			if (dp.chance(170)) {
				std::unique_ptr<Plan> pl(new Plan);
				pl->done = &done2;
				pl->pauses = dp.bytes((size_t) dp.range(1, 6));
				int reps = dp.range(2, 10);
				for (int i = 0; i < reps; i++) { api::Call c; c.text = "bidib_flush()"; c.run = [] { bidib_flush(); }; pl->calls.push_back(c); }
				ctx.desc << "  flusher thread: " << reps << " x bidib_flush()\n";
				pls.push_back(std::move(pl));
			}
			const size_t nth = pls.size();
			n.bus.silent = false;        // drive acknowledgements arrive, so that budget-deferred drive messages are released
			contracts::enable(true);
			std::vector<pthread_t> th2(nth);
			for (size_t t = 0; t < nth; t++) vf_pthread_create(&th2[t], nullptr, thread_main, pls[t].get());
			int guard2 = 0;
			while (__atomic_load_n(&done2, __ATOMIC_RELAXED) < (int) nth && guard2++ < 400000) vf_usleep(free_run ? 3000 : 1000);
			if (__atomic_load_n(&done2, __ATOMIC_RELAXED) < (int) nth) ctx.fail("HANG: owner threads did not finish");
			for (size_t t = 0; t < nth; t++) vf_pthread_join(th2[t], nullptr);
			contracts::enable(false);
			for (int r = 0; r < 12; r++) { bidib_flush(); n.s.settle(2); }
			n.bus.silent = true;
			for (auto &pl : pls) if (!pl->violation.empty()) ctx.fail(pl->violation);
			if (contracts::violations() > 0) ctx.fail(std::string("LOCK-CONTRACT: ") + contracts::violation(0));
			for (size_t t = 0; t < k; t++) {
				if (tr->periphs[t].bit >= 5 && tr->periphs[t].bit <= 7) continue;       // reserved bits: the call is rejected
				t_bidib_train_peripheral_state_query q = bidib_get_train_peripheral_state(tr->id.c_str(), tr->periphs[t].id.c_str());
				if (!q.available || q.state != last[t])
					ctx.fail("LOST-UPDATE: function " + tr->periphs[t].id + " of train " + tr->id + " was last set to " + std::to_string(last[t]) + " by its only writer, but the tracked state says " +
					         std::to_string(q.state) + " after " + std::to_string(k) + " threads switched different functions of the train concurrently");
			}
			// every drive message has been written and acknowledged by now (the bus answers each with "accepted"): the last word
			// on the train is the acknowledgement of its last command
			{
				size_t drives = 0;
				for (auto &r : n.bus.tx) if (r.m.type == M::CS_DRIVE && r.m.data.size() == 9 && r.m.data[0] == tr->addrl && r.m.data[1] == tr->addrh) drives++;
				t_bidib_train_state_query q = bidib_get_train_state(tr->id.c_str());
				if (q.known && drives > 0 && q.data.ack != BIDIB_DCC_ACK_ACCEPTED_SOON)
					ctx.fail("LOST-UPDATE: all " + std::to_string(drives) + " drive messages for train " + tr->id + " were acknowledged with 'accepted' and the bus is quiet, but the tracked acknowledgement is " +
					         std::to_string((int) q.data.ack) + (q.data.ack == BIDIB_DCC_ACK_PENDING ? " (pending)" : "") + ": a command marked the train pending after its own acknowledgement had been recorded");
				bidib_free_train_state_query(q);
				if (any_drive) ctx.tag("owners-case-with-driver");
			}
			// the last drive message of every function group on the wire carries the final values of its functions
			int nodei = n.bus.node_of_board(out);
			std::map<int, ref::Msg> last_of_group;
			for (auto &r : n.bus.tx)
				if (r.m.type == M::CS_DRIVE && r.m.data.size() == 9 && r.m.addr == n.bus.nodes[(size_t) nodei].addr && r.m.data[0] == tr->addrl && r.m.data[1] == tr->addrh)
					for (int g = 1; g <= 5; g++) if (r.m.data[3] & (1 << g)) last_of_group[g] = r.m;
			static const int LO[] = {0, 0, 8, 12, 16, 24}, HI[] = {0, 4, 11, 15, 23, 31};
			for (size_t t = 0; t < k; t++) {
				int bit = tr->periphs[t].bit;
				if (bit >= 5 && bit <= 7) continue;
				for (int g = 1; g <= 5; g++)
					if (bit >= LO[g] && bit <= HI[g] && last_of_group.count(g)) {
						int wire_bit = (last_of_group[g].data[5 + (size_t) bit / 8] >> (bit % 8)) & 1;
						if (wire_bit != last[t])
							ctx.fail("LOST-UPDATE: the last drive message for function group " + std::to_string(g) + " of train " + tr->id + " (" + ref::show(last_of_group[g]) + ") carries " + std::to_string(wire_bit) +
							         " for function " + tr->periphs[t].id + ", its only writer last set " + std::to_string(last[t]));
					}
			}
			ctx.tag("owners-case");
			M_.init(n.c);          // the reference continues from the state the commands produced
		}
	}
	// the bytes of the uplink traffic are set aside first (the thread plans would otherwise use up the case and leave one
	// message); they are used again from the start while application threads are still running
	ref::Bytes traffic_bytes = dp.bytes(std::min<size_t>(dp.left() / (free_run ? 2 : 3), 400));
	DP tdp(traffic_bytes);
	unsigned nt = (unsigned) dp.range(2, free_run ? 12 : 4);
	bool watch_case = dp.chance(130);          // watch: state changes only through the main thread's messages
	int done = 0;
	std::vector<std::unique_ptr<Plan>> plans;
	std::vector<Watch> pool;
	for (auto &id : P.by_kind[gq::A_TRAIN]) pool.push_back({0, id});
	for (auto &id : P.by_kind[gq::A_SEGMENT]) pool.push_back({1, id});
	for (auto &id : P.by_kind[gq::A_POINT]) pool.push_back({2, id});
	for (auto &id : P.by_kind[gq::A_SIGNAL]) pool.push_back({3, id});
	for (auto &id : P.by_kind[gq::A_PERIPHERAL]) pool.push_back({4, id});
	for (auto &id : P.by_kind[gq::A_REVERSER]) pool.push_back({5, id});
	for (auto &id : P.by_kind[gq::A_BOOSTER]) pool.push_back({6, id});
	for (auto &id : P.by_kind[gq::A_OUTPUT]) pool.push_back({7, id});
	// focus: all watched getters and all injected messages concern one kind of entity, so that a reader and the receiver
	// thread meet on the same fields often (mostly in the free-running flavour, where ThreadSanitizer needs the two accesses)
	int focus = -1;
	if (watch_case && dp.chance(free_run ? 170 : 50)) {
		focus = (int) dp.pick(8);
		std::vector<Watch> fp;
		for (auto &w : pool) if (w.kind == focus || (focus == 2 && w.kind == 3) || (focus == 3 && w.kind == 2)) fp.push_back(w);
		if (fp.empty()) focus = -1; else { pool = fp; ctx.desc << " focus on entity kind " << focus << "\n"; }
	}
	auto concerns = [&](uint8_t type) {
		switch (focus) {
		case 0: return type == M::BM_SPEED || type == M::BM_DYN_STATE || type == M::CS_DRIVE_ACK || type == M::BM_ADDRESS || type == M::CS_DRIVE_MANUAL;
		case 1: return type == M::BM_OCC || type == M::BM_FREE || type == M::BM_ADDRESS || type == M::BM_CURRENT || type == M::BM_CONFIDENCE;
		case 2: case 3: return type == M::ACCESSORY_STATE || type == M::CS_ACCESSORY_ACK || type == M::CS_ACCESSORY_MANUAL;
		case 4: return type == M::LC_STAT || type == M::LC_WAIT;
		case 5: return type == M::VENDOR;
		case 6: return type == M::BOOST_STAT || type == M::BOOST_DIAGNOSTIC;
		case 7: return type == M::CS_STATE;
		default: return true;
		}
	};
	unsigned total_calls = 0;
	for (unsigned t = 0; t < nt; t++) {
		std::unique_ptr<Plan> pl(new Plan);
		pl->done = &done;
		pl->pauses = dp.bytes((size_t) dp.range(2, 12));
		unsigned k = (unsigned) dp.range(3, free_run ? 60 : 30);
		ctx.desc << " thread " << t << ":";
		for (unsigned i = 0; i < k; i++) {
			if (watch_case) {
				if (!pool.empty() && dp.chance(190)) { pl->watches.push_back(pool[dp.pick((unsigned) pool.size())]); ctx.desc << " watch:" << pl->watches.back().id; }
				else {
					// calls that do not change tracked state: getters, queue readers, flush, state-neutral requests
					unsigned w = dp.pick(3);
					api::Call c = w == 0 ? api::getter_call(dp, P, dp.pick((unsigned) gq::getters().size()), (api::Cls) dp.weighted({8, 2, 1, 1})) : w == 1 ? api::misc_call((int) dp.pick(3)) : api::setter_call(dp, P, 11 + (int) dp.pick(4), api::VALID);
					ctx.desc << " " << c.text << ";";
					pl->calls.push_back(c);
				}
			} else { pl->calls.push_back(api::any_call(dp, P)); ctx.desc << " " << pl->calls.back().text << ";"; }
			total_calls++;
		}
		ctx.desc << "\n";
		plans.push_back(std::move(pl));
	}
	// boundaries of the reference state (main thread only)
	struct Boundary { uint64_t from, to; std::map<std::string, std::string> lines; };
	std::vector<Boundary> hist;
	hist.push_back({0, UINT64_MAX, M_.lines()});
	std::vector<std::unique_ptr<Prober>> probers;
	if (watch_case && !free_run && !pool.empty() && dp.chance(220)) {
		static const struct { const void *lock; const char *name; } LK[8] = {
		    {&trackstate_trains_mutex, "trackstate_trains_mutex"}, {&trackstate_segments_mutex, "trackstate_segments_mutex"},
		    {&trackstate_accessories_mutex, "trackstate_accessories_mutex"}, {&trackstate_accessories_mutex, "trackstate_accessories_mutex"},
		    {&trackstate_peripherals_mutex, "trackstate_peripherals_mutex"}, {&trackstate_reversers_mutex, "trackstate_reversers_mutex"},
		    {&trackstate_boosters_mutex, "trackstate_boosters_mutex"}, {&trackstate_track_outputs_mutex, "trackstate_track_outputs_mutex"}};
		unsigned np = (unsigned) dp.range(1, 2);
		for (unsigned i = 0; i < np; i++) {
			int kind = pool[dp.pick((unsigned) pool.size())].kind;
			bool dup = false;
			for (auto &q : probers) if (q->lock == LK[kind].lock) dup = true;
			if (dup) continue;
			std::unique_ptr<Prober> pr(new Prober);
			pr->lock = LK[kind].lock;
			pr->lock_name = LK[kind].name;
			for (auto &w : pool) if (LK[w.kind].lock == pr->lock) pr->targets.push_back(w);
			pr->picks = dp.bytes((size_t) dp.range(1, 8));
			ctx.desc << " prober at every release of " << pr->lock_name << " (" << pr->targets.size() << " entities)\n";
			probers.push_back(std::move(pr));
		}
	}
	contracts::enable(true);
	std::vector<pthread_t> th(nt), pth(probers.size());
	for (size_t i = 0; i < probers.size(); i++) vf_pthread_create(&pth[i], nullptr, prober_main, probers[i].get());
	for (unsigned t = 0; t < nt; t++) vf_pthread_create(&th[t], nullptr, thread_main, plans[t].get());
	unsigned injected = 0;
	int guard = 0;
	while (__atomic_load_n(&done, __ATOMIC_RELAXED) < (int) nt && guard++ < 400000) {
		if (!tdp.more() && !traffic_bytes.empty() && injected < (free_run ? 400u : 60u)) tdp.pos = 0;
		if (injected == 0 || (tdp.more() && tdp.chance(free_run ? 240 : 170))) {
			int node;
			ref::Msg m;
			bool have = known_message(tdp, n, node, m);
			for (int again = 0; have && focus >= 0 && !concerns(m.type) && again < 12; again++) { m = ref::Msg(); have = known_message(tdp, n, node, m); }
			if (have) {
				const cfg::Board *b = n.bus.nodes[(size_t) node].board_id.empty() ? nullptr : n.c.board(n.bus.nodes[(size_t) node].board_id);
				uint64_t t_inj = vf_now_us();
				if (watch_case) M_.rx(b, m);
				n.bus.send_from(node, m.type, m.data);
				injected++;
				if (watch_case) {
					n.s.settle();
					hist.back().to = vf_now_us();
					hist.push_back({t_inj, UINT64_MAX, M_.lines()});
				}
			}
		}
		vf_usleep(free_run ? 1500 : 1000);
	}
	if (__atomic_load_n(&done, __ATOMIC_RELAXED) < (int) nt) ctx.fail("HANG: application threads did not finish");
	for (unsigned t = 0; t < nt; t++) vf_pthread_join(th[t], nullptr);
	n.s.settle();
	vf_cancel_release_waits();
	for (size_t i = 0; i < probers.size(); i++) vf_pthread_join(pth[i], nullptr);
	contracts::enable(false);
	for (auto &pl : plans) if (!pl->violation.empty()) ctx.fail(pl->violation);
	if (contracts::violations() > 0) ctx.fail(std::string("LOCK-CONTRACT: ") + contracts::violation(0) + (contracts::violations() > 1 ? " (and " + std::to_string(contracts::violations() - 1) + " more)" : ""));
	unsigned long nobs = 0, nprobes = 0;
	if (watch_case) {
		// quiescent: the library agrees with the reference at the end
		std::string df = M_.diff();
		if (!df.empty()) ctx.fail("STATE: after the concurrent phase: " + df);
		std::vector<const Obs *> all_obs;
		for (auto &pl : plans) for (auto &ob : pl->obs) all_obs.push_back(&ob);
		for (auto &pr : probers) for (auto &ob : pr->obs) { all_obs.push_back(&ob); nprobes++; }
		for (const Obs *obp : all_obs) {
			{
				const Obs &ob = *obp;
				nobs++;
				bool ok = false;
				std::string candidates;
				for (auto &B : hist) {
					if (B.to < ob.ts || B.from > ob.te) continue;
					auto it = B.lines.find(ob.key);
					if (it == B.lines.end()) { ok = true; break; }          // entity not rendered by the reference (e.g. unknown id)
					if (it->second == ob.line) { ok = true; break; }
					if (candidates.size() < 600) candidates += "\n    '" + it->second + "'";
				}
				if (!ok) ctx.fail("TORN/STALE: a concurrent getter returned '" + ob.line + "' in window [" + std::to_string(ob.ts) + "," + std::to_string(ob.te) + "] us, but the entity's values at the message boundaries inside that window were:" + candidates);
			}
		}
	}
	n.s.stop();
	std::string an = lifecycle_anomalies(true);
	if (!an.empty()) ctx.fail("LIFECYCLE: " + an);
	ctx.tag(watch_case ? "watch-case" : "mix-case");
	if (focus >= 0) ctx.tag("focus-case");
	ctx.tag(free_run ? "free-running" : "scheduled");
	if (contracts::available()) { ctx.count("contract-checks", (long) contracts::checked()); ctx.count("distinct-accessors-checked", (long) contracts::distinct_checked()); }
	ctx.count("threads", nt);
	ctx.count("api-calls", total_calls);
	ctx.count("uplink-messages-during-calls", injected);
	ctx.count("watched-results", (long) nobs);
	ctx.count("results-of-probers-at-release-points", (long) nprobes);
	if (!probers.empty()) ctx.tag("watch-case-with-probers");
	ctx.count("preemptions", vf_preemptions_taken());
	ctx.nontrivial = nt >= 2 && injected >= 1 && (!watch_case || nobs >= 1);
	ctx.hash_src = ctx.desc.str() + hex(sched);
}

PropReg reg({"C10", prop,
             "non-trivial: >=2 application threads ran while >=1 uplink message was processed (watch cases: >=1 watched getter "
             "result); mix / watch cases and scheduled / free-running flavour tagged; distinct = distinct (configuration, plans, schedule)",
             1300, 80, false});

}  // namespace
