// C11 — No call blocks forever: locks balanced on every path, nested in one global order.
//
// Every library lock operation goes through the interposed pthread layer of the world (objcopy
// redirect), which keeps per-thread held-sets, detects wait-for cycles (deadlock) and virtual-time
// budget overruns (a call that polls forever) and records the lock-order graph (edge A->B when B is
// acquired while A is held).
// Domain, per case (generated configuration + tree with a generated connected subset):
//   (a) ENUMERATED: every public getter x {valid, unknown, NULL, foreign id}, every high-level setter /
//       admin call x the same classes (incl. disconnected boards, undefined aspects, out-of-range values),
//       every low-level sender in and out of its documented range, flush and the queue readers - the
//       complete product is executed in every case of this kind;
//   (b) every uplink type code 0x80..0xFF, well-formed, from a configured and from an unconfigured
//       address, processed on the receiver thread;
//   (c) start with a rejected configuration (one of the 25 rejection classes) followed by stop;
//   (d) 2..4 application threads running generated calls concurrently with uplink traffic and
//       auto-flush under a generated schedule (preemption at every lock operation).
// Oracle: (1) the calling thread holds no lock when a public call returns, no thread holds a lock at a
// quiescent point or after stop; (2) no unlock of a lock that is not held, no other lock-layer anomaly;
// (3) the lock-order graph of the case is acyclic (recursive read acquisition of one rwlock by one
// thread is reported as information) - and bin/check verifies that the union of the graphs of ALL cases
// of a run is acyclic; (4) no wait-for cycle and no virtual-time budget overrun.
#include "props/api_calls.hpp"
#include "props/known_traffic.hpp"
#include "harness/traffic.hpp"
#include <cstring>
#include <algorithm>

using namespace vf;

namespace {

std::string held_now(int tid) {
	if (vf_held_count(tid) == 0) return "";
	char buf[600];
	vf_describe_held(buf, sizeof buf);
	return buf;
}

// cycle in the lock-order graph accumulated in this case ("" = acyclic)
std::string order_cycle() {
	vf_lock_edge e[256];
	size_t n = vf_lock_edges(e, 256);
	std::map<std::string, std::vector<std::string>> g;
	for (size_t i = 0; i < n; i++)
		if (strcmp(e[i].from, e[i].to)) g[e[i].from].push_back(e[i].to);
	std::map<std::string, int> color;
	std::vector<std::string> stack;
	std::string found;
	std::function<bool(const std::string &)> dfs = [&](const std::string &u) {
		color[u] = 1;
		stack.push_back(u);
		for (auto &v : g[u]) {
			if (color[v] == 1) {
				auto it = std::find(stack.begin(), stack.end(), v);
				for (; it != stack.end(); ++it) found += *it + " -> ";
				found += v;
				return true;
			}
			if (color[v] == 0 && dfs(v)) return true;
		}
		stack.pop_back();
		color[u] = 2;
		return false;
	};
	for (auto &kv : g)
		if (color[kv.first] == 0 && dfs(kv.first)) return found;
	return "";
}

struct Plan { std::vector<api::Call> calls; int *done; std::string *violation; };
void *thread_main(void *p) {
	Plan *pl = (Plan *) p;
	for (auto &c : pl->calls) {
		c.run();
		if (vf_held_count(vf_self()) > 0 && pl->violation->empty()) *pl->violation = "BALANCE: " + c.text + " returned while its thread still holds " + held_now(vf_self());
	}
	(*pl->done)++;
	return nullptr;
}

void prop(DP &dp, const ref::Bytes &sched, Ctx &ctx) {
	Normal n;
	NormalOpts o;
	o.gen.max_items = 2;
	o.gen.need_track_output = dp.chance(200);
	o.present_mode = dp.chance(120) ? 1 : 0;
	n.prepare(dp, sched, o);
	unsigned kind = dp.weighted({5, 2, 2, 6});     // enumerated calls / all uplink types / rejected start / threads
	unsigned flush = kind == 3 && dp.chance(128) ? 5 : 0;
	ctx.desc << "C11 " << n.c.summary() << "\n bus: " << n.bus.describe() << "\n";
	auto after_call = [&](const api::Call &c) {
		std::string h = held_now(0);
		if (!h.empty()) ctx.fail("BALANCE: " + c.text + " returned while the calling thread still holds " + h);
		if (vf_anomaly_count() > 0) ctx.fail("LOCK-ANOMALY after " + c.text + ": " + vf_anomaly(0));
	};
	auto quiescent = [&](const char *when) {
		n.s.settle();
		std::string h = held_now(-1);
		if (!h.empty()) ctx.fail(std::string("BALANCE: at a quiescent point (") + when + ") a thread still holds " + h);
		if (vf_anomaly_count() > 0) ctx.fail(std::string("LOCK-ANOMALY (") + when + "): " + vf_anomaly(0));
	};
	if (kind == 2) {
		// (c) rejected configuration, then stop
		int cls = (int) dp.pick((unsigned) cfg::N_FAULT_CLASSES);
		cfg::Faulted f;
		for (int k = 0; k < cfg::N_FAULT_CLASSES && f.cls.empty(); k++) f = cfg::inject_fault(n.c, (cls + k) % cfg::N_FAULT_CLASSES, dp);
		if (f.cls.empty()) { ctx.tag("fault-not-applicable"); return; }
		ctx.desc << " rejected start: fault class " << f.cls << "\n";
		int rc = n.s.start_normal(f.board, f.track, f.train, 0);
		if (rc == 0) n.s.stop();
		std::string an = lifecycle_anomalies(true);
		if (!an.empty()) ctx.fail("BALANCE after a rejected start (" + f.cls + "): " + an);
		bidib_stop();
		an = lifecycle_anomalies(true);
		if (!an.empty()) ctx.fail("BALANCE after stop following a rejected start: " + an);
		ctx.tag("rejected-start:" + f.cls);
		ctx.nontrivial = true;
		ctx.hash_src = f.cls + f.board + f.track + f.train;
		return;
	}
	if (n.start(flush) != 0) ctx.fail("START: valid configuration rejected");
	quiescent("after start");
	api::Pools P = api::pools_of(n);
	unsigned ncalls = 0;
	if (kind == 0) {
		// (a) the complete product
		for (size_t gi = 0; gi < gq::getters().size(); gi++)
			for (int cls = 0; cls < 4; cls++) { api::Call c = api::getter_call(dp, P, gi, (api::Cls) cls); c.run(); after_call(c); ncalls++; }
		for (int si = 0; si < api::N_SETTERS; si++)
			for (int cls = 0; cls < 4; cls++) { api::Call c = api::setter_call(dp, P, si, (api::Cls) cls); c.run(); after_call(c); ncalls++; if (ncalls % 16 == 0) { bidib_flush(); n.s.settle(); } }
		for (size_t fi = 0; fi < send_table().size(); fi++)
			for (int inr = 0; inr < 2; inr++) { api::Call c = api::sender_call(dp, P, (int) fi, inr != 0); c.run(); after_call(c); ncalls++; if (ncalls % 16 == 0) { bidib_flush(); n.s.settle(); } }
		for (int k = 0; k < 3; k++) { api::Call c = api::misc_call(k); c.run(); after_call(c); ncalls++; }
		ctx.tag("enumerated-all-public-calls");
		ctx.count("enumerated-calls", (long) ncalls);
	} else if (kind == 1) {
		// (b) every uplink type code from a configured and from an unconfigured address
		n.bus.silent = true;
		ref::Bytes known_addr = n.bus.nodes[dp.pick((unsigned) n.bus.nodes.size())].addr, unknown_addr = {0x7a, 0x7b};
		for (int t = 0x80; t <= 0xFF; t++) {
			for (int src = 0; src < 2; src++) {
				ref::Msg m;
				m.addr = src ? unknown_addr : known_addr;
				m.type = (uint8_t) t;
				m.seq = 0;
				if (t == M::NODE_LOST || t == M::NODE_NEW) continue;       // node-table changes are C15's histories; their lock paths run in (d) via the bus
				m.data = traffic::valid_payload(dp, m.type);
				n.s.inject_packet({m});
			}
			if (t % 16 == 15) quiescent("after a batch of uplink messages");
		}
		quiescent("after all uplink types");
		Session::drain_messages();
		Session::drain_errors();
		Session::drain_intern();
		ctx.tag("all-uplink-types");
	} else {
		// (d) threads
		unsigned nt = (unsigned) dp.range(2, 4);
		int done = 0;
		std::string violation;
		std::vector<Plan> plans(nt);
		for (unsigned t = 0; t < nt; t++) {
			plans[t].done = &done;
			plans[t].violation = &violation;
			unsigned k = (unsigned) dp.range(3, 40);
			ctx.desc << " thread " << t << ":";
			for (unsigned i = 0; i < k; i++) { plans[t].calls.push_back(api::any_call(dp, P)); ctx.desc << " " << plans[t].calls.back().text << ";"; }
			ctx.desc << "\n";
			ncalls += k;
		}
		std::vector<pthread_t> th(nt);
		for (unsigned t = 0; t < nt; t++) vf_pthread_create(&th[t], nullptr, thread_main, &plans[t]);
		int guard = 0;
		while (done < (int) nt && guard++ < 200000) {
			if (dp.more() && dp.chance(160)) { int node; ref::Msg m; if (known_message(dp, n, node, m)) n.bus.send_from(node, m.type, m.data); }
			vf_usleep(1000);
		}
		if (done < (int) nt) ctx.fail("HANG: application threads did not finish");
		for (unsigned t = 0; t < nt; t++) vf_pthread_join(th[t], nullptr);
		if (!violation.empty()) ctx.fail(violation);
		quiescent("after the threads finished");
		ctx.tag("concurrent-threads");
		ctx.count("preemptions", vf_preemptions_taken());
	}
	bidib_flush();
	quiescent("before stop");
	n.s.stop();
	std::string an = lifecycle_anomalies(true);
	if (!an.empty()) ctx.fail("BALANCE after stop: " + an);
	std::string cyc = order_cycle();
	if (!cyc.empty()) ctx.fail("LOCK-ORDER: the locks are nested in conflicting orders within this case: " + cyc);
	for (size_t i = 0; i < vf_info_count() && i < 3; i++) ctx.tag(std::string("info:") + vf_info(i));
	ctx.count("lock-operations", (long) vf_lock_ops());
	ctx.count("max-nesting", (long) vf_max_nesting());
	ctx.nontrivial = vf_max_nesting() >= 2;
	ctx.hash_src = ctx.desc.str() + std::to_string(kind) + hex(dp.p, dp.n > 64 ? 64 : dp.n) + (kind == 3 ? hex(sched) : "");
}

PropReg reg({"C11", prop,
             "non-trivial: the case nests >=2 library locks on some path (all do in practice); kinds: complete enumeration of "
             "public calls x argument classes / all uplink types / rejected start + stop / concurrent threads under a generated "
             "schedule; the evidence lists the lock-order edges observed over the whole run",
             1200, 50, false});

}  // namespace
