// C12 — No received byte stream causes out-of-bounds access, a crash or a stuck receiver.
//
// Domain: debug-mode and normal-mode sessions (generated configuration, all boards on the bus, so
// that the state consumers find — and do not find — the addressed equipment). The uplink stream is a
// generated sequence of
//    valid      1..3 well-formed messages in one packet (harness/traffic.hpp)
//    frame      a CRC-VALID packet carrying an adversarial message:
//                 short        valid type, payload cut below what the type requires (down to nothing)
//                 lenlie       length byte larger / smaller than the bytes that follow (0, 1, 2, 255 ...)
//                 addr         4..6 address bytes, missing terminator, only non-zero bytes
//                 field        well-formed layout, enumerated field set to an arbitrary byte
//                 inner        inner length field inconsistent (VENDOR, STRING, BM_MULTIPLE, BM_ADDRESS odd,
//                              BOOST_DIAGNOSTIC odd, ERR_TXT)
//                 blob         random bytes as packet content; empty packet; lone CRC byte
//    noise      raw bytes (no valid CRC), escape bytes before delimiters
//    oversized  257..700 bytes without a delimiter (with and without a valid CRC)
// delivered with generated read-poll gaps.
// Oracle: AddressSanitizer / UBSan silence (the case runs in a forked child; a sanitizer report is a
// failure with signature = error kind + innermost libbidib frame), then a LIVENESS PROBE: two
// well-formed SYS_PONG packets with fresh nonces are injected behind a delimiter and at least one
// must come out of bidib_read_message (two, because a packet directly behind line noise may
// legitimately be merged into the corrupted fragment); in normal mode an occupancy report for a
// configured segment of a still connected board must show up in bidib_get_segment_state; finally
// bidib_stop must return with no lock held and every thread joined.
#include "harness/normal.hpp"
#include "harness/traffic.hpp"
#include "ref/msgs.hpp"
#include <cstring>
#include <algorithm>

using namespace vf;

namespace {

const uint8_t UP_TYPES[] = {
    M::SYS_MAGIC, M::SYS_PONG, M::SYS_P_VERSION, M::SYS_UNIQUE_ID, M::SYS_SW_VERSION, M::SYS_ERROR, M::SYS_IDENTIFY_STATE,
    M::NODETAB_COUNT, M::NODETAB, M::PKT_CAPACITY, M::NODE_NA, M::NODE_LOST, M::NODE_NEW, M::STALL, M::FW_UPDATE_STAT,
    M::FEATURE, M::FEATURE_NA, M::FEATURE_COUNT, M::VENDOR, M::VENDOR_ACK, M::STRING,
    M::BM_OCC, M::BM_FREE, M::BM_MULTIPLE, M::BM_ADDRESS, M::BM_ACCESSORY, M::BM_CV, M::BM_SPEED, M::BM_CURRENT, M::BM_XPOM,
    M::BM_CONFIDENCE, M::BM_DYN_STATE, M::BM_RCPLUS, M::BM_POSITION,
    M::BOOST_STAT, M::BOOST_CURRENT, M::BOOST_DIAGNOSTIC,
    M::ACCESSORY_STATE, M::ACCESSORY_PARA, M::ACCESSORY_NOTIFY,
    M::LC_STAT, M::LC_NA, M::LC_CONFIG, M::LC_KEY, M::LC_WAIT, M::LC_CONFIGX, M::LC_MACRO_STATE, M::LC_MACRO, M::LC_MACRO_PARA,
    M::CS_STATE, M::CS_DRIVE_ACK, M::CS_ACCESSORY_ACK, M::CS_POM_ACK, M::CS_DRIVE_MANUAL, M::CS_DRIVE_EVENT, M::CS_ACCESSORY_MANUAL,
    M::CS_PROG_STATE, M::CS_RCPLUS_ACK,
};

uint8_t draw_type(DP &dp) {
	if (dp.chance(225)) return UP_TYPES[dp.pick(sizeof UP_TYPES)];
	return dp.u8();
}

// raw message bytes (len, addr.., 0, seq, type, data..) -> packet
ref::Bytes packet_of(const ref::Bytes &content) { return ref::frame(content); }

struct Gen {
	DP &dp;
	std::vector<ref::Bytes> addrs;       // node addresses on the bus (normal mode) / some addresses (debug mode)
	Ctx &ctx;
	ref::Bytes addr() {
		if (!addrs.empty() && dp.chance(200)) return addrs[dp.pick((unsigned) addrs.size())];
		ref::Bytes a;
		int d = dp.range(0, 3);
		for (int i = 0; i < d; i++) a.push_back((uint8_t) dp.range(1, 255));
		return a;
	}
	ref::Msg valid_msg() {
		ref::Msg m;
		m.addr = addr();
		m.type = draw_type(dp);
		m.seq = dp.chance(40) ? 0 : dp.u8();
		m.data = traffic::valid_payload(dp, m.type);
		return m;
	}
	// adversarial message content; cls receives the malformation class
	ref::Bytes adversarial(std::string &cls) {
		unsigned k = dp.weighted({6, 4, 3, 5, 5, 3});
		ref::Msg m = valid_msg();
		ref::Bytes e;
		switch (k) {
		case 0: {
			cls = "short";
			size_t keep = m.data.empty() ? 0 : dp.pick((unsigned) m.data.size());
			m.data.resize(keep);
			return ref::encode_msg(m);
		}
		case 1: {
			cls = "lenlie";
			e = ref::encode_msg(m);
			static const uint8_t L[] = {0, 1, 2, 3, 4, 255, 254, 128, 127, 64};
			e[0] = dp.chance(150) ? L[dp.pick(sizeof L)] : (dp.flag() ? (uint8_t) (e[0] + dp.range(1, 9)) : (uint8_t) (e[0] - dp.range(1, std::min<int>(e[0], 9))));
			if (dp.chance(60)) e.resize(std::min<size_t>(e.size(), 1 + dp.pick(4)));      // and physically short
			return e;
		}
		case 2: {
			cls = "addr";
			unsigned how = dp.pick(3);
			int n = dp.range(4, 7);
			e.push_back(0);
			for (int i = 0; i < n; i++) e.push_back((uint8_t) dp.range(1, 255));
			if (how == 0) { e.push_back(0); e.push_back(m.seq); e.push_back(m.type); e.insert(e.end(), m.data.begin(), m.data.end()); }   // over-deep but terminated
			else if (how == 1) { e.push_back((uint8_t) dp.range(1, 255)); }                                                               // never terminated
			else { e.resize(1 + (size_t) dp.range(1, 3)); }                                                                               // 1..3 non-zero bytes, nothing else
			e[0] = (uint8_t) (e.size() - 1);
			if (dp.chance(60)) e[0] = (uint8_t) dp.range(0, 255);
			return e;
		}
		case 3: {
			cls = "field";
			static const uint8_t T[] = {M::CS_STATE, M::SYS_ERROR, M::BOOST_STAT, M::BM_DYN_STATE, M::ACCESSORY_STATE, M::ACCESSORY_NOTIFY, M::CS_DRIVE_ACK,
			                            M::CS_ACCESSORY_ACK, M::BM_CURRENT, M::BOOST_DIAGNOSTIC, M::BM_CONFIDENCE, M::CS_DRIVE_MANUAL, M::LC_STAT, M::NODE_NEW, M::NODE_LOST, M::BM_ADDRESS};
			m.type = T[dp.pick(sizeof T)];
			m.data = traffic::valid_payload(dp, m.type);
			if (m.type == M::SYS_ERROR) { m.data = {dp.chance(128) ? (uint8_t) 0x10 : dp.u8(), dp.u8()}; if (dp.chance(40)) m.data = {0x04}; }
			else for (auto &x : m.data) if (dp.chance(110)) x = dp.chance(128) ? dp.u8() : (uint8_t) (dp.flag() ? 0xFF : 0x80);
			return ref::encode_msg(m);
		}
		case 4: {
			cls = "inner";
			unsigned w = dp.pick(7);
			switch (w) {
			case 0: m.type = M::VENDOR; m.data = {(uint8_t) dp.range(0, 255)}; for (int i = dp.range(0, 5); i > 0; i--) m.data.push_back(dp.u8()); break;
			case 1: m.type = M::VENDOR; m.data = {2, 'a', 'b', (uint8_t) dp.range(1, 255)}; for (int i = dp.range(0, 3); i > 0; i--) m.data.push_back(dp.u8()); break;
			case 2: m.type = M::STRING; m.data = {0, 0, (uint8_t) dp.range(1, 255)}; for (int i = dp.range(0, 3); i > 0; i--) m.data.push_back(dp.u8()); break;
			case 3: m.type = M::BM_MULTIPLE; m.data = {(uint8_t) (dp.chance(128) ? 8 * dp.pick(32) : dp.u8()), (uint8_t) (dp.chance(128) ? 8 * dp.range(1, 31) : dp.u8())}; for (int i = dp.range(0, 4); i > 0; i--) m.data.push_back(dp.u8()); break;
			case 4: m.type = M::BM_ADDRESS; m.data = {(uint8_t) dp.pick(8)}; for (int i = dp.range(0, 3) * 2 + (int) dp.pick(2); i > 0; i--) m.data.push_back(dp.u8()); break;
			case 5: m.type = M::BOOST_DIAGNOSTIC; m.data.clear(); for (int i = dp.range(0, 3) * 2 + 1; i > 0; i--) m.data.push_back((uint8_t) dp.pick(3)); break;
			default: m.type = M::SYS_ERROR; m.data = {0x01, (uint8_t) dp.range(1, 255)}; for (int i = dp.range(0, 3); i > 0; i--) m.data.push_back('x'); break;
			}
			return ref::encode_msg(m);
		}
		default: {
			cls = "blob";
			unsigned how = dp.pick(4);
			if (how == 0) return {};                     // empty packet: only the CRC byte (0) between delimiters
			if (how == 1) return {0};
			return dp.bytes((size_t) dp.range(1, 40), true);
		}
		}
	}
};

void prop(DP &dp, const ref::Bytes &sched, Ctx &ctx) {
	bool debug = dp.chance(90);
	Normal n;
	Session &s = n.s;
	std::vector<ref::Bytes> addrs;
	if (debug) {
		s.world(sched);
		ctx.desc << "C12 debug mode\n";
		if (s.start_debug(0) != 0) ctx.fail("START: debug-mode start failed");
		addrs = {{}, {1}, {1, 2}, {3, 1, 1}};
	} else {
		NormalOpts o;
		o.present_mode = 1;
		o.gen.need_segments = true;
		o.gen.min_boards = 1;
		o.gen.max_boards = 3;
		n.prepare(dp, sched, o);
		ctx.desc << "C12 normal mode " << n.c.summary() << "\n bus: " << n.bus.describe() << "\n";
		// adversarial interface: while the startup dialogue runs, the bus adds valid and adversarial messages of its own
		// behind its answers (extra / contradicting table rows, counts, features, notices, stall, malformed frames).
		// The statement promises memory safety and a live receiver, not that such a start succeeds or even returns:
		// a start that never finishes within the virtual-time budget ends the case (tagged, not asserted).
		bool adversary = !ctx.in_process && dp.chance(90);
		if (adversary) {
			for (auto &bn : n.bus.nodes) addrs.push_back(bn.addr);
			unsigned budget_msgs = (unsigned) dp.range(1, 25);
			Gen *gp = new Gen{dp, addrs, ctx};
			unsigned *left = new unsigned(budget_msgs);
			n.bus.after_request = [&n, gp, left, &ctx](const ref::Msg &) {
				if (*left == 0 || !gp->dp.more() || !gp->dp.chance(70)) return;
				(*left)--;
				ref::Bytes pl;
				std::string cls = "valid";
				if (gp->dp.chance(150)) {
					ref::Msg m = gp->valid_msg();
					static const uint8_t ST[] = {M::NODETAB, M::NODETAB_COUNT, M::FEATURE, M::FEATURE_COUNT, M::SYS_MAGIC, M::NODE_NEW, M::NODE_LOST, M::NODE_NA, M::FEATURE_NA, M::STALL, M::PKT_CAPACITY};
					if (gp->dp.chance(200)) { m.type = ST[gp->dp.pick(sizeof ST)]; m.data = traffic::valid_payload(gp->dp, m.type); }
					pl = ref::encode_msg(m);
				} else pl = gp->adversarial(cls);
				ctx.desc << "  (during startup) " << cls << " " << hex(pl) << "\n";
				ctx.tag("startup-adversary:" + cls);
				n.s.inject(ref::frame(pl));
			};
			vf_set_time_cap(vf_now_us() + 120ULL * 1000000ULL);
			hang_is_inconclusive(true);
		}
		int src = n.start(0);
		n.bus.after_request = nullptr;
		if (adversary) {
			hang_is_inconclusive(false);
			vf_set_time_cap(900ULL * 1000000ULL);
			addrs.clear();
			if (src != 0) {
				// the start gave up: the library must be stopped cleanly and restartable is C13's business; nothing more to probe here
				std::string an = lifecycle_anomalies(true);
				if (!an.empty()) ctx.fail("LIFECYCLE after a start that an adversarial interface made fail: " + an);
				ctx.tag("startup-adversary-start-failed");
				ctx.nontrivial = true;
				ctx.hash_src = ctx.desc.str();
				return;
			}
		} else if (src != 0) ctx.fail("START: valid configuration rejected");
		s.settle();
		n.bus.silent = true;
		for (auto &bn : n.bus.nodes) addrs.push_back(bn.addr);
	}
	Session::drain_messages();
	Session::drain_errors();
	Gen g{dp, addrs, ctx};
	unsigned nitems = (unsigned) dp.range(1, 40);
	std::set<std::string> classes;
	unsigned crc_valid_adversarial = 0;
	for (unsigned i = 0; i < nitems && (i < 2 || dp.more()); i++) {
		unsigned kind = dp.weighted({5, 14, 3, 1});
		ref::Bytes wire;
		if (kind == 0) {
			int k = dp.range(1, 3);
			ref::Bytes pl;
			for (int j = 0; j < k; j++) { ref::Bytes e = ref::encode_msg(g.valid_msg()); pl.insert(pl.end(), e.begin(), e.end()); }
			wire = packet_of(pl);
			ctx.desc << "  valid   " << hex(pl) << "\n";
			classes.insert("valid");
		} else if (kind == 1) {
			std::string cls;
			ref::Bytes pl;
			if (dp.chance(60)) { ref::Bytes e = ref::encode_msg(g.valid_msg()); pl = e; }        // a good message in front
			ref::Bytes a = g.adversarial(cls);
			pl.insert(pl.end(), a.begin(), a.end());
			if (dp.chance(40)) { ref::Bytes e = ref::encode_msg(g.valid_msg()); pl.insert(pl.end(), e.begin(), e.end()); }   // ... or behind
			wire = packet_of(pl);
			ctx.desc << "  frame   [" << cls << "] " << hex(pl) << "\n";
			classes.insert(cls);
			crc_valid_adversarial++;
		} else if (kind == 2) {
			wire = dp.bytes((size_t) dp.range(1, 30), true);
			if (dp.chance(100)) wire.push_back(0xFD);
			if (dp.chance(128)) wire.push_back(0xFE);
			ctx.desc << "  noise   " << hex(wire) << "\n";
			classes.insert("noise");
		} else {
			size_t len = (size_t) dp.range(257, 700);
			ref::Bytes pl = dp.bytes(8, true);
			pl.resize(len, (uint8_t) dp.range(1, 0xFC));
			wire = dp.flag() ? packet_of(pl) : pl;
			if (wire.empty() || wire.back() != 0xFE) wire.push_back(0xFE);
			ctx.desc << "  oversized " << len << " bytes\n";
			classes.insert("oversized");
		}
		s.inject(wire, dp.chance(60) ? (uint64_t) dp.range(1, 30) * 1000 : 0);
		if (dp.chance(120)) {
			s.settle();
			Session::drain_messages();
			Session::drain_errors();
		}
	}
	s.settle();
	Session::drain_messages();
	Session::drain_errors();
	Session::drain_intern();
	// ---- liveness probe
	uint8_t n1 = (uint8_t) (0x40 | dp.pick(32)), n2 = (uint8_t) (n1 ^ 0x15);
	ref::Bytes paddr = addrs[dp.pick((unsigned) addrs.size())];
	ref::Msg p1{paddr, 0, M::SYS_PONG, {n1}}, p2{paddr, 0, M::SYS_PONG, {n2}};
	ref::Bytes probe = {0xFE};
	for (auto *p : {&p1, &p2}) { ref::Bytes f = ref::frame(ref::encode_msg(*p)); probe.insert(probe.end(), f.begin(), f.end()); }
	s.inject(probe);
	s.settle(3);
	bool got = false;
	for (auto &m : Session::drain_messages())
		if (m == ref::encode_msg(p1) || m == ref::encode_msg(p2)) got = true;
	if (!got) ctx.fail("STUCK: two well-formed SYS_PONG packets injected after the stream were not delivered by bidib_read_message: the receiver stopped processing");
	if (!debug) {
		// an occupancy report for a configured segment of a board that is still connected must be tracked
		for (auto &b : n.c.boards) {
			if (!b.in_track || b.segments.empty() || !bidib_get_board_connected(b.id.c_str())) continue;
			t_bidib_node_address_query aq = bidib_get_nodeaddr(b.id.c_str());
			if (!aq.known_and_connected) continue;
			ref::Bytes a;
			if (aq.address.top) a.push_back(aq.address.top);
			if (aq.address.sub) a.push_back(aq.address.sub);
			if (aq.address.subsub) a.push_back(aq.address.subsub);
			const cfg::Segment &sg = b.segments[0];
			for (int occ = 1; occ >= 0; occ--) {
				ref::Msg r{a, 0, occ ? M::BM_OCC : M::BM_FREE, {sg.addr}};
				s.inject(ref::frame(ref::encode_msg(r)));
				s.settle(2);
				t_bidib_segment_state_query q = bidib_get_segment_state(sg.id.c_str());
				bool ok = q.known && q.data.occupied == (occ != 0);
				bidib_free_segment_state_query(q);
				if (!ok) ctx.fail("STUCK: occupancy report for segment " + sg.id + " after the stream is not reflected by bidib_get_segment_state");
			}
			break;
		}
	}
	s.stop();
	std::string an = lifecycle_anomalies(true);
	if (!an.empty()) ctx.fail("LIFECYCLE: " + an);
	for (auto &c : classes) ctx.tag(c);
	ctx.tag(debug ? "debug-mode" : "normal-mode");
	ctx.count("crc-valid-adversarial-packets", crc_valid_adversarial);
	ctx.nontrivial = crc_valid_adversarial > 0;
	ctx.hash_src = ctx.desc.str();
}

PropReg reg({"C12", prop,
             "non-trivial: the stream contains >=1 CRC-valid packet with an adversarial message that reaches the dispatcher "
             "(classes short / lenlie / addr / field / inner / blob are counted); distinct = distinct streams",
             1400, 0, false});

}  // namespace
