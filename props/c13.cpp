// C13 — Start with arbitrary config files terminates with 0 or 1, never crashes or hangs.
//
// Domain: triples of files derived from a valid R-config configuration by 1..3 structure-aware
// mutations on the YAML text (delete / duplicate / swap / re-indent a line, rename a key,
// replace a value by another kind of node, malformed numbers, alias / anchor / second
// document / tab, truncate at any byte), plus missing file, empty file and raw byte noise;
// the simulated interface answers or stays silent.
// Oracle (forked child, virtual-time budget, wait-for-cycle detection, ASan/UBSan):
// bidib_start_pointer returns 0 or 1. If 1: no lock held, every thread joined, no memory
// leaked (LeakSanitizer), and a second start with a known-valid configuration returns 0 and
// serves a getter. If 0: stop is clean.
#include "harness/normal.hpp"
#include "ref/msgs.hpp"
#include <cstring>

using namespace vf;

namespace {

std::vector<std::string> lines_of(const std::string &s) {
	std::vector<std::string> v;
	size_t p = 0;
	while (p < s.size()) {
		size_t e = s.find('\n', p);
		if (e == std::string::npos) e = s.size();
		v.push_back(s.substr(p, e - p));
		p = e + 1;
	}
	return v;
}
std::string join(const std::vector<std::string> &v) {
	std::string s;
	for (auto &l : v) s += l + "\n";
	return s;
}

std::string mutate(std::string text, DP &dp, std::string &what) {
	auto v = lines_of(text);
	static const char *KEYS[] = {"id", "unique-id", "features", "number", "value", "boards", "points-board", "points-dcc", "signals-board",
	                             "signals-dcc", "peripherals", "segments", "reversers", "aspects", "initial", "ports", "port", "dcc-address",
	                             "extended", "address", "length", "cv", "trains", "dcc-speed-steps", "calibration", "bit", "type"};
	static const char *JUNK[] = {"[]", "{}", "[a, b]", "{a: b}", "&anchor x", "*alias", "!!str 5", "~", "\"\"", "0xZZ", "256", "-1", "0x",
	                             "0x012345678", "1e9", "yes", "|", ">", "? x", "'unterminated", "\"unterminated", "@", "%TAG", "0x00000000000000",
	                             "xxxxxxxxxxxxxxxxxxxxxxxxxxxxxxxxxxxxxxxxxxxxxxxxxxxxxxxxxxxxxxxxxxxxxxxxxxxxxxxxxxxxxxxxxxxxxxxxxxxxxxxxxxxxxxxxxxxxxxxxxxxxxxxx"};
	unsigned k = dp.weighted({6, 5, 4, 4, 6, 8, 3, 3, 2, 2, 2, 7});
	size_t n = v.size();
	size_t i = n ? dp.pick((unsigned) n) : 0, j = n ? dp.pick((unsigned) n) : 0;
	if (n > 1 && v[i].rfind("#", 0) == 0) i = (i + 1) % n;       // the leading comment line is no interesting target
	if (n > 1 && v[j].rfind("#", 0) == 0) j = (j + 1) % n;
	switch (k) {
	case 0: if (n) { what = "delete line " + std::to_string(i) + " '" + v[i] + "'"; v.erase(v.begin() + (long) i); } break;
	case 1: if (n) { what = "duplicate line " + std::to_string(i); v.insert(v.begin() + (long) i, v[i]); } break;
	case 2: if (n) { what = "swap lines " + std::to_string(i) + "," + std::to_string(j); std::swap(v[i], v[j]); } break;
	case 3: if (n) {
			int d = dp.range(-4, 4);
			what = "re-indent line " + std::to_string(i) + " by " + std::to_string(d);
			if (d > 0) v[i] = std::string((size_t) d, ' ') + v[i];
			else for (int q = 0; q < -d && !v[i].empty() && v[i][0] == ' '; q++) v[i].erase(0, 1);
		}
		break;
	case 4: if (n) {   // rename key
			size_t c = v[i].find(':');
			if (c != std::string::npos) {
				size_t st = v[i].find_first_not_of(" -");
				if (st != std::string::npos && st < c) {
					std::string nk = KEYS[dp.pick(sizeof KEYS / sizeof *KEYS)];
					what = "rename key on line " + std::to_string(i) + " to " + nk;
					v[i] = v[i].substr(0, st) + nk + v[i].substr(c);
				}
			}
		}
		break;
	case 5: if (n) {   // replace value
			size_t c = v[i].find(':');
			std::string jk = JUNK[dp.pick(sizeof JUNK / sizeof *JUNK)];
			what = "replace value on line " + std::to_string(i) + " by " + jk.substr(0, 20);
			if (c != std::string::npos) v[i] = v[i].substr(0, c + 1) + " " + jk;
			else v[i] += " " + jk;
		}
		break;
	case 6: { what = "truncate"; std::string t = join(v); t.resize(dp.pick((unsigned) t.size() + 1)); return t; }
	case 7: what = "insert document separator"; v.insert(v.begin() + (long) (n ? i : 0), dp.flag() ? "---" : "..."); break;
	case 8: if (n) { what = "tab in line " + std::to_string(i); v[i] = "\t" + v[i]; } break;
	case 9: if (n) { what = "insert list item"; v.insert(v.begin() + (long) i, std::string((size_t) dp.range(0, 10), ' ') + "- " + KEYS[dp.pick(sizeof KEYS / sizeof *KEYS)] + ": 1"); } break;
	case 11: if (n) {   // copy the value of one key onto another line with the same key (duplicate ids / numbers / addresses of every kind)
			size_t c = v[i].find(':');
			size_t st = v[i].find_first_not_of(" -");
			if (c != std::string::npos && st != std::string::npos && st < c && c + 1 < v[i].size()) {
				std::string key = v[i].substr(st, c - st);
				std::vector<size_t> same;
				for (size_t q = 0; q < n; q++) {
					size_t c2 = v[q].find(':'), s2 = v[q].find_first_not_of(" -");
					if (q != i && c2 != std::string::npos && s2 != std::string::npos && s2 < c2 && v[q].substr(s2, c2 - s2) == key && c2 + 1 < v[q].size()) same.push_back(q);
				}
				if (!same.empty()) {
					size_t q = same[dp.pick((unsigned) same.size())];
					what = "copy value of '" + key + "' from line " + std::to_string(i) + " to line " + std::to_string(q);
					v[q] = v[q].substr(0, v[q].find(':')) + v[i].substr(c);
				}
			}
		}
		break;
	default: {
		what = "raw byte noise";
		std::string t = join(v);
		unsigned m = (unsigned) dp.range(1, 8);
		for (unsigned q = 0; q < m && !t.empty(); q++) t[dp.pick((unsigned) t.size())] = (char) dp.u8();
		return t;
	}
	}
	return join(v);
}

const char *GOOD_BOARD = "boards:\n  - id: gb1\n    unique-id: 0x05000D6B0083EC\n    features:\n      - number: 0x03\n        value: 0x01\n";
const char *GOOD_TRACK = "boards:\n  - id: gb1\n    segments:\n      - id: gs1\n        address: 0x00\n        length: 10cm\n";
const char *GOOD_TRAIN = "trains:\n  - id: gt1\n    dcc-address: 0x0001\n    dcc-speed-steps: 126\n";

void prop(DP &dp, const ref::Bytes &sched, Ctx &ctx) {
	Normal n;
	NormalOpts o;
	o.present_mode = dp.chance(128) ? 1 : 0;
	n.prepare(dp, sched, o);
	n.bus.silent = dp.chance(50);
	std::string files[3] = {n.c.board_yaml(), n.c.track_yaml(), n.c.train_yaml()};
	std::string semantic_fault;
	if (dp.chance(50)) {
		// start from a configuration with one semantic fault of C14's rejection list (duplicates of every id kind, shared addresses ...)
		int cls = (int) dp.pick((unsigned) cfg::N_FAULT_CLASSES);
		cfg::Faulted f = cfg::inject_fault(n.c, cls, dp);
		if (!f.cls.empty()) { files[0] = f.board; files[1] = f.track; files[2] = f.train; semantic_fault = f.cls; }
	}
	bool missing[3] = {false, false, false};
	unsigned nm = 1 + dp.weighted({6, 3, 1});
	ctx.desc << "C13 base: " << n.c.summary() << "\n bus: " << n.bus.describe() << "\n";
	if (!semantic_fault.empty()) { ctx.desc << " semantic fault: " << semantic_fault << "\n"; ctx.tag("semantic-fault:" + semantic_fault); }
	std::string ops;
	for (unsigned m = 0; m < nm; m++) {
		unsigned f = dp.weighted({3, 5, 3});
		unsigned special = dp.weighted({30, 1, 1, 1});
		std::string what;
		if (special == 1) { missing[f] = true; what = "file missing"; }
		else if (special == 2) { files[f] = ""; what = "file empty"; }
		else if (special == 3) { ref::Bytes rb = dp.bytes((size_t) dp.range(1, 200)); files[f] = std::string(rb.begin(), rb.end()); what = "raw bytes"; }
		else files[f] = mutate(files[f], dp, what);
		static const char *fn[] = {"board", "track", "train"};
		ctx.desc << " mutation on " << fn[f] << " file: " << what << "\n";
		ops += std::string(fn[f]) + ":" + what.substr(0, what.find(' ')) + ";";
	}
	// NUL bytes cannot be carried through the C string interface of the virtual file
	for (auto &f : files) { size_t z = f.find('\0'); if (z != std::string::npos) f.resize(z); }
	ctx.desc << "--- board ---\n" << (missing[0] ? "(missing)\n" : files[0]) << "--- track ---\n" << (missing[1] ? "(missing)\n" : files[1])
	         << "--- train ---\n" << (missing[2] ? "(missing)\n" : files[2]);
	int rc = n.s.start_files(missing[0] ? nullptr : files[0].c_str(), missing[1] ? nullptr : files[1].c_str(), missing[2] ? nullptr : files[2].c_str(), 0);
	if (rc != 0 && rc != 1) ctx.fail("RETURN: bidib_start_pointer returned " + std::to_string(rc));
	if (rc == 0) {
		t_bidib_track_state st = bidib_get_state();
		bidib_free_track_state(st);
		n.s.stop();
		ctx.tag("accepted");
	} else {
		ctx.tag("rejected");
	}
	std::string an = lifecycle_anomalies(true);
	if (!an.empty()) ctx.fail(std::string("CLEANUP after start returned ") + std::to_string(rc) + ": " + an);
	// the library must be startable again with a valid configuration
	Bus bus2;
	bus2.attach(n.s);
	cfg::Config none;
	bus2.build_tree(dp, none, {}, 0);
	BusNode gb;
	gb.uid = {0x05, 0x00, 0x0D, 0x6B, 0x00, 0x83, 0xEC};
	gb.addr = {1};
	gb.parent = 0;
	gb.board_id = "gb1";
	bus2.nodes.push_back(gb);
	bus2.nodes[0].children.push_back(1);
	n.s.up.clear();
	int rc2 = n.s.start_files(GOOD_BOARD, GOOD_TRACK, GOOD_TRAIN, 0);
	if (rc2 != 0) ctx.fail("RESTART: after a start that returned " + std::to_string(rc) + ", starting with a valid configuration returned " + std::to_string(rc2));
	if (!bidib_get_board_connected("gb1")) ctx.fail("RESTART: board of the valid configuration is not connected in the follow-up session");
	auto ids = take_ids(bidib_get_boards());
	if (ids != std::multiset<std::string>{"gb1"}) ctx.fail("RESTART: follow-up session reports boards " + show_ids(ids) + " (state of the failed start leaked into it)");
	n.s.stop();
	an = lifecycle_anomalies(true);
	if (!an.empty()) ctx.fail("CLEANUP after follow-up session: " + an);
	ctx.nontrivial = rc == 1;
	ctx.hash_src = ops + "|" + files[0] + "|" + files[1] + "|" + files[2] + (missing[0] ? "m0" : "") + (missing[1] ? "m1" : "") + (missing[2] ? "m2" : "");
	ctx.count(rc ? "rejected" : "accepted");
}

PropReg reg({"C13", prop,
             "non-trivial: the mutated triple was rejected (start returned 1), so cleanup, leak check and restart were exercised; "
             "distinct = distinct (mutation kinds, file contents)",
             900, 0, true});

}  // namespace
