// C14 — Configs accepted iff well-formed and unambiguous; getters reflect them exactly.
//
// Domain: valid configurations from R-config (0..4 boards, every section absent / empty /
// populated, near-colliding ids, numbers over their legal ranges, all class-bit combinations,
// 14/28/126 speed steps, function bits 0..31, hex or decimal numbers); for rejection exactly
// one fault of the statement's list (25 classes incl. a malformed value) at a generated position.
// Oracle: valid -> start returns 0 and every enumeration getter equals R-config's expectation;
// single fault -> start returns 1 (and stops cleanly: locks released, threads joined).
// Not asserted: acceptance of layouts outside the documented examples, rejection of
// ambiguities not listed in the statement.
#include "harness/normal.hpp"
#include "ref/msgs.hpp"
#include <cstring>

using namespace vf;

namespace {

void expect_ids(Ctx &ctx, const char *what, const std::multiset<std::string> &got, const std::multiset<std::string> &want) {
	if (got != want) ctx.fail(std::string("GETTER: ") + what + " returned " + show_ids(got) + ", configuration declares " + show_ids(want));
}

void prop(DP &dp, const ref::Bytes &sched, Ctx &ctx) {
	Normal n;
	NormalOpts o;
	bool faulty = dp.chance(128);
	o.gen.allow_zeropad = true;
	o.gen.wide_dcc = true;      // DCC address high bytes over the full byte range: sharing is decided on the exact value
	o.present_mode = dp.chance(128) ? 2 : 0;
	n.prepare(dp, sched, o);
	ctx.desc << "C14 " << n.c.summary() << "\n bus: " << n.bus.describe() << "\n";
	if (faulty) {
		int cls = (int) dp.pick((unsigned) cfg::N_FAULT_CLASSES);
		cfg::Faulted f;
		for (int k = 0; k < cfg::N_FAULT_CLASSES && f.cls.empty(); k++) f = cfg::inject_fault(n.c, (cls + k) % cfg::N_FAULT_CLASSES, dp);
		if (f.cls.empty()) { ctx.desc << " (no fault class applicable)\n"; ctx.tag("fault-not-applicable"); ctx.hash_src = ctx.desc.str(); return; }
		if (ctx.excl("c11-dcc-dup-rdlock-leak") && f.cls == "dcc-address-shared") { ctx.hash_src = ctx.desc.str(); return; }
		ctx.desc << " FAULT " << f.cls << "\n--- board ---\n" << f.board << "--- track ---\n" << f.track << "--- train ---\n" << f.train;
		int rc = n.s.start_normal(f.board, f.track, f.train, 0);
		if (rc != 1) {
			if (rc == 0) n.s.stop();
			ctx.fail("ACCEPTED-FAULTY: configuration with a single fault of class '" + f.cls + "' was accepted (start returned " + std::to_string(rc) + ")");
		}
		std::string an = lifecycle_anomalies(true);
		if (!an.empty()) ctx.fail("LIFECYCLE after rejected start: " + an);
		ctx.tag("fault:" + f.cls);
		ctx.nontrivial = true;
		ctx.hash_src = f.cls + "|" + f.board + "|" + f.track + "|" + f.train;
		return;
	}
	ctx.desc << "--- board ---\n" << n.c.board_yaml() << "--- track ---\n" << n.c.track_yaml() << "--- train ---\n" << n.c.train_yaml();
	int rc = n.start();
	if (rc != 0) ctx.fail("REJECTED-VALID: configuration following the documented layout was rejected (start returned " + std::to_string(rc) + ")");
	const cfg::Config &c = n.c;
	std::multiset<std::string> want, boosters, outputs;
	for (auto &b : c.boards) {
		want.insert(b.id);
		if (b.is_booster()) boosters.insert(b.id);
		if (b.is_track_output()) outputs.insert(b.id);
	}
	expect_ids(ctx, "bidib_get_boards", take_ids(bidib_get_boards()), want);
	expect_ids(ctx, "bidib_get_boosters", take_ids(bidib_get_boosters()), boosters);
	expect_ids(ctx, "bidib_get_track_outputs", take_ids(bidib_get_track_outputs()), outputs);
	size_t n_pb = 0, n_pd = 0, n_sb = 0, n_sd = 0, n_pe = 0, n_se = 0, n_re = 0;
	for (auto &b : c.boards) {
		std::multiset<std::string> pts, sigs, per, seg, rev;
		if (b.in_track) {
			for (auto &x : b.points_board) pts.insert(x.id);
			for (auto &x : b.points_dcc) pts.insert(x.id);
			for (auto &x : b.signals_board) sigs.insert(x.id);
			for (auto &x : b.signals_dcc) sigs.insert(x.id);
			for (auto &x : b.peripherals) per.insert(x.id);
			for (auto &x : b.segments) seg.insert(x.id);
			for (auto &x : b.reversers) rev.insert(x.id);
			n_pb += b.points_board.size(); n_pd += b.points_dcc.size(); n_sb += b.signals_board.size(); n_sd += b.signals_dcc.size();
			n_pe += b.peripherals.size(); n_se += b.segments.size(); n_re += b.reversers.size();
		}
		expect_ids(ctx, ("bidib_get_board_points(" + b.id + ")").c_str(), take_ids(bidib_get_board_points(b.id.c_str())), pts);
		expect_ids(ctx, ("bidib_get_board_signals(" + b.id + ")").c_str(), take_ids(bidib_get_board_signals(b.id.c_str())), sigs);
		expect_ids(ctx, ("bidib_get_board_peripherals(" + b.id + ")").c_str(), take_ids(bidib_get_board_peripherals(b.id.c_str())), per);
		expect_ids(ctx, ("bidib_get_board_segments(" + b.id + ")").c_str(), take_ids(bidib_get_board_segments(b.id.c_str())), seg);
		expect_ids(ctx, ("bidib_get_board_reversers(" + b.id + ")").c_str(), take_ids(bidib_get_board_reversers(b.id.c_str())), rev);
		t_bidib_board_features_query fq = bidib_get_board_features(b.id.c_str());
		std::multiset<std::pair<int, int>> gotf, wantf;
		for (size_t i = 0; i < fq.length; i++) gotf.insert({fq.features[i].number, fq.features[i].value});
		bidib_free_board_features_query(fq);
		for (auto &f : b.features) wantf.insert({f.number, f.value});
		if (gotf != wantf) ctx.fail("GETTER: bidib_get_board_features(" + b.id + ") differs from the declared features");
		t_bidib_unique_id_query uq = bidib_get_uniqueid(b.id.c_str());
		if (!uq.known || memcmp(&uq.unique_id, b.uid.data(), 7) != 0) ctx.fail("GETTER: bidib_get_uniqueid(" + b.id + ") differs from the declared unique id");
		if (!b.in_track) continue;
		auto aspects = [&](auto &list, const char *fn, t_bidib_id_list_query (*get)(const char *)) {
			for (auto &x : list) {
				std::multiset<std::string> w;
				for (auto &a : x.aspects) w.insert(a.id);
				expect_ids(ctx, (std::string(fn) + "(" + x.id + ")").c_str(), take_ids(get(x.id.c_str())), w);
			}
		};
		aspects(b.points_board, "bidib_get_point_aspects", bidib_get_point_aspects);
		aspects(b.points_dcc, "bidib_get_point_aspects", bidib_get_point_aspects);
		aspects(b.signals_board, "bidib_get_signal_aspects", bidib_get_signal_aspects);
		aspects(b.signals_dcc, "bidib_get_signal_aspects", bidib_get_signal_aspects);
		aspects(b.peripherals, "bidib_get_peripheral_aspects", bidib_get_peripheral_aspects);
	}
	std::multiset<std::string> trains;
	for (auto &t : c.trains) {
		trains.insert(t.id);
		std::multiset<std::string> w;
		for (auto &p : t.periphs) w.insert(p.id);
		expect_ids(ctx, ("bidib_get_train_peripherals(" + t.id + ")").c_str(), take_ids(bidib_get_train_peripherals(t.id.c_str())), w);
		t_bidib_dcc_address_query dq = bidib_get_train_dcc_addr(t.id.c_str());
		if (!dq.known || dq.dcc_address.addrl != t.addrl || dq.dcc_address.addrh != t.addrh) ctx.fail("GETTER: bidib_get_train_dcc_addr(" + t.id + ") differs from the declared address");
		t_bidib_dcc_address da = {t.addrl, t.addrh, 0};
		t_bidib_id_query iq = bidib_get_train_id(da);
		if (!iq.known || !iq.id || t.id != iq.id) ctx.fail("GETTER: bidib_get_train_id does not find train " + t.id + " by its DCC address");
		bidib_free_id_query(iq);
	}
	expect_ids(ctx, "bidib_get_trains", take_ids(bidib_get_trains()), trains);
	// snapshot: exactly the declared entities; initial values when no configured board is on the bus
	bool none_present = true;
	for (bool p : n.present) none_present &= !p;
	t_bidib_track_state st = bidib_get_state();
	if (st.points_board_count != n_pb || st.points_dcc_count != n_pd || st.signals_board_count != n_sb || st.signals_dcc_count != n_sd ||
	    st.peripherals_count != n_pe || st.segments_count != n_se || st.reversers_count != n_re || st.trains_count != c.trains.size() ||
	    st.booster_count != boosters.size() || st.track_outputs_count != outputs.size())
		ctx.fail("SNAPSHOT: bidib_get_state entity counts differ from the configuration");
	if (none_present) {
		for (size_t i = 0; i < st.segments_count; i++)
			if (st.segments[i].data.occupied || st.segments[i].data.dcc_address_cnt != 0 || st.segments[i].data.power_consumption.known)
				ctx.fail(std::string("INITIAL: segment ") + st.segments[i].id + " is not in its initial state (free, no addresses)");
		for (size_t i = 0; i < st.trains_count; i++) {
			auto &d = st.trains[i].data;
			if (d.on_track || d.set_speed_step != 0 || d.detected_kmh_speed != 0 || !d.set_is_forwards)
				ctx.fail(std::string("INITIAL: train ") + st.trains[i].id + " is not in its initial state");
			for (size_t j = 0; j < d.peripheral_cnt; j++)
				if (d.peripherals[j].state != 0) ctx.fail(std::string("INITIAL: train function ") + d.peripherals[j].id + " is not off initially");
		}
		for (size_t i = 0; i < st.booster_count; i++)
			if (st.booster[i].data.power_state != BIDIB_BSTR_OFF) ctx.fail("INITIAL: booster not off initially");
		for (size_t i = 0; i < st.track_outputs_count; i++)
			if (st.track_outputs[i].cs_state != BIDIB_CS_OFF) ctx.fail("INITIAL: track output not off initially");
		for (size_t i = 0; i < st.points_board_count; i++)
			if (strcmp(st.points_board[i].data.state_id, "unknown") != 0) ctx.fail("INITIAL: board point has a state although its board is not connected");
		for (size_t i = 0; i < st.reversers_count; i++)
			if (st.reversers[i].data.state_value != BIDIB_REV_EXEC_STATE_UNKNOWN) ctx.fail("INITIAL: reverser state not unknown initially");
	}
	bidib_free_track_state(st);
	n.s.stop();
	std::string an = lifecycle_anomalies(true);
	if (!an.empty()) ctx.fail("LIFECYCLE: " + an);
	int kinds = (n_pb + n_pd > 0) + (n_sb + n_sd > 0) + (n_pe > 0) + (n_se > 0) + (n_re > 0) + (!c.trains.empty());
	ctx.nontrivial = c.boards.size() >= 2 && kinds >= 3;
	ctx.tag("valid");
	if (none_present) ctx.tag("valid:initial-state-checked");
	ctx.hash_src = n.c.board_yaml() + n.c.track_yaml() + n.c.train_yaml();
}

PropReg reg({"C14", prop,
             "non-trivial: a valid configuration with >=2 boards and >=3 populated section kinds, or a single-fault configuration; "
             "distinct = distinct (fault class, file contents); per-fault-class counters reported",
             900, 0, true});

}  // namespace
