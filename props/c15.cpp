// C15 — Node table: correct address/connectivity at startup and on node new/lost.
//
// Domain: configuration + node tree up to three address levels (fan-out, nested interfaces,
// unknown unique ids, configured-but-absent boards), optional "table changed" interruption
// during enumeration (optionally with a node disappearing at that moment); afterwards a
// generated sequence of NODE_LOST / NODE_NEW notices (loss of leaves and of interfaces with
// children, re-login at another address, unknown unique ids) mixed with high-level commands.
// Oracle: R-nodetab (a model of the tree) vs bidib_get_boards_connected, bidib_get_board_connected,
// bidib_get_nodeaddr; every notice is acknowledged to its sender with NODE_CHANGED_ACK(version),
// without waiting for a flush; later commands go to the current address of a connected board
// and commands naming a disconnected board return 1.
#include "harness/normal.hpp"
#include "ref/msgs.hpp"
#include <cstring>
#include <algorithm>

using namespace vf;

namespace {

struct MNode { ref::Bytes addr; std::array<uint8_t, 7> uid; std::string board; bool alive = true; };

void check_connectivity(Ctx &ctx, const cfg::Config &c, const std::vector<MNode> &model, const char *when) {
	std::multiset<std::string> want;
	for (auto &b : c.boards) {
		const MNode *mn = nullptr;
		for (auto &m : model)
			if (m.alive && m.board == b.id) mn = &m;
		bool conn = bidib_get_board_connected(b.id.c_str());
		if (conn != (mn != nullptr))
			ctx.fail(std::string("CONNECTIVITY: board ") + b.id + (conn ? " is reported connected but is not on the bus" : " is on the bus but reported disconnected") + " (" + when + ")");
		t_bidib_node_address_query q = bidib_get_nodeaddr(b.id.c_str());
		if (q.known_and_connected != (mn != nullptr)) ctx.fail(std::string("CONNECTIVITY: bidib_get_nodeaddr(") + b.id + ").known_and_connected is wrong (" + when + ")");
		if (mn) {
			want.insert(b.id);
			ref::Bytes got;
			if (q.address.top) got.push_back(q.address.top);
			if (q.address.sub) got.push_back(q.address.sub);
			if (q.address.subsub) got.push_back(q.address.subsub);
			if (got != mn->addr) ctx.fail(std::string("ADDRESS: board ") + b.id + " is reported at " + hex(got) + " but sits at " + hex(mn->addr) + " (" + when + ")");
		}
	}
	auto got = take_ids(bidib_get_boards_connected());
	if (got != want) ctx.fail(std::string("CONNECTIVITY: bidib_get_boards_connected returned ") + show_ids(got) + ", on the bus are " + show_ids(want) + " (" + when + ")");
}

void prop(DP &dp, const ref::Bytes &sched, Ctx &ctx) {
	Normal n;
	NormalOpts o;
	o.gen.max_boards = 7;
	o.max_unknown = 3;
	o.gen.interface_chance = dp.chance(128) ? 190 : 100;
	o.deep_tree = true;
	o.gen.max_items = 1;
	o.max_unknown = 3;
	o.allow_table_change = true;
	o.allow_drop = true;
	n.prepare(dp, sched, o);
	ctx.desc << "C15 " << n.c.summary() << "\n bus: " << n.bus.describe() << "\n";
	if (n.start() != 0) ctx.fail("START: valid configuration rejected");
	n.s.settle();
	const cfg::Config &c = n.c;
	std::vector<MNode> model;
	bool nested = false;
	for (auto &bn : n.bus.nodes) {
		if (bn.gone) { ctx.tag("node-left-during-enumeration"); continue; }
		model.push_back({bn.addr, bn.uid, bn.board_id, true});
		if (bn.addr.size() >= 2) nested = true;
	}
	check_connectivity(ctx, c, model, "after startup");
	bool lost_ev = false, new_ev = false;
	unsigned nev = (unsigned) dp.range(0, 14);
	// table versions count per interface: notices of different interfaces may well carry the same number
	std::map<ref::Bytes, uint8_t> versions;
	for (unsigned e = 0; e < nev && dp.more(); e++) {
		unsigned kind = dp.weighted({5, 5, 3});
		size_t mark = n.bus.tx.size();
		if (kind == 0) {
			// a node (not the root) is lost; the notice comes from its parent interface
			std::vector<size_t> cand;
			for (size_t i = 1; i < model.size(); i++) if (model[i].alive) cand.push_back(i);
			if (cand.empty()) continue;
			size_t k = cand[dp.pick((unsigned) cand.size())];
			ref::Bytes parent(model[k].addr.begin(), model[k].addr.end() - 1);
			uint8_t &vref = versions.emplace(parent, 2).first->second;
			const uint8_t version = vref;
			ref::Bytes d = {version, model[k].addr.back()};
			d.insert(d.end(), model[k].uid.begin(), model[k].uid.end());
			ctx.desc << "  NODE_LOST " << hex(model[k].addr) << " " << (model[k].board.empty() ? "unknown" : model[k].board) << " (notice from " << (parent.empty() ? "0" : hex(parent)) << ")\n";
			// model: the node and, if it is an interface, everything beneath it
			ref::Bytes pre = model[k].addr;
			bool is_if = model[k].uid[0] & 0x80;
			for (auto &m : model)
				if (m.alive && (&m == &model[k] || (is_if && m.addr.size() > pre.size() && std::equal(pre.begin(), pre.end(), m.addr.begin())))) m.alive = false;
			n.bus.send_from_addr(parent, M::NODE_LOST, d);
			n.s.settle();
			std::vector<TxRec> delta = n.bus.since(mark);
			size_t acks = 0;
			for (auto &r : delta)
				if (r.m.type == M::NODE_CHANGED_ACK) {
					acks++;
					if (r.m.addr != parent || r.m.data != ref::Bytes{version}) ctx.fail("ACK: node-lost notice from " + hex(parent) + " version " + std::to_string(version) + " acknowledged with " + ref::show(r.m));
				}
			if (acks != 1) ctx.fail("ACK: node-lost notice was acknowledged " + std::to_string(acks) + " times (without any flush call)");
			vref++;
			lost_ev = true;
			check_connectivity(ctx, c, model, "after NODE_LOST");
		} else if (kind == 1) {
			// a node logs in below a living interface: a configured board that is currently absent, or an unknown one
			std::vector<size_t> parents;
			for (size_t i = 0; i < model.size(); i++)
				if (model[i].alive && (i == 0 || (model[i].uid[0] & 0x80)) && model[i].addr.size() < 3) parents.push_back(i);
			if (parents.empty()) continue;
			size_t p = parents[dp.pick((unsigned) parents.size())];
			std::vector<const cfg::Board *> absent;
			for (auto &b : c.boards) {
				bool on = false;
				for (auto &m : model) if (m.alive && m.board == b.id) on = true;
				if (!on) absent.push_back(&b);
			}
			MNode nn;
			// re-login: a connected leaf board shows up at another address although its loss was never reported
			// (re-plugged to another hub; the old hub's NODE_LOST is late). The board must be reachable at the new address.
			std::vector<size_t> movable;
			for (size_t i = 1; i < model.size(); i++) {
				if (!model[i].alive || model[i].board.empty() || i == p) continue;
				bool has_child = false;
				for (auto &m : model) if (m.alive && m.addr.size() > model[i].addr.size() && std::equal(model[i].addr.begin(), model[i].addr.end(), m.addr.begin())) has_child = true;
				bool p_below = model[p].addr.size() >= model[i].addr.size() && std::equal(model[i].addr.begin(), model[i].addr.end(), model[p].addr.begin());
				if (!has_child && !p_below) movable.push_back(i);
			}
			if (!movable.empty() && dp.chance(70)) {
				size_t k = movable[dp.pick((unsigned) movable.size())];
				nn.uid = model[k].uid;
				nn.board = model[k].board;
				model[k].alive = false;
				model[k].board.clear();
				ctx.tag("relogin-without-node-lost");
				ctx.desc << "  (re-login of " << nn.board << ", no NODE_LOST before)\n";
			} else if (!absent.empty() && !dp.chance(50)) {
				const cfg::Board *b = absent[dp.pick((unsigned) absent.size())];
				nn.uid = b->uid;
				nn.board = b->id;
			} else {
				nn.uid = {(uint8_t) dp.pick(0x60), 0, 0x0D, 0xAB, 0xCD, (uint8_t) e, 0x77};
			}
			uint8_t local;
			int guard = 0;
			bool clash;
			do {
				local = (uint8_t) dp.range(1, guard++ > 10 ? 250 : 12);
				clash = false;
				for (auto &m : model)
					if (m.alive && m.addr.size() == model[p].addr.size() + 1 && std::equal(model[p].addr.begin(), model[p].addr.end(), m.addr.begin()) && m.addr.back() == local) clash = true;
			} while (clash && guard < 300);
			if (clash) continue;
			nn.addr = model[p].addr;
			nn.addr.push_back(local);
			// a stale (dead) model entry of the same board is replaced
			for (auto &m : model) if (!m.alive && !nn.board.empty() && m.board == nn.board) m.board.clear();
			uint8_t &vref = versions.emplace(model[p].addr, 2).first->second;
			const uint8_t version = vref;
			ref::Bytes d = {version, local};
			d.insert(d.end(), nn.uid.begin(), nn.uid.end());
			ctx.desc << "  NODE_NEW " << hex(nn.addr) << " " << (nn.board.empty() ? "unknown" : nn.board) << " (notice from " << (model[p].addr.empty() ? "0" : hex(model[p].addr)) << ")\n";
			ref::Bytes parent = model[p].addr;
			model.push_back(nn);
			if (nn.addr.size() >= 2) nested = true;
			n.bus.send_from_addr(parent, M::NODE_NEW, d);
			n.s.settle();
			std::vector<TxRec> delta = n.bus.since(mark);
			size_t acks = 0;
			for (auto &r : delta)
				if (r.m.type == M::NODE_CHANGED_ACK) {
					acks++;
					if (r.m.addr != parent || r.m.data != ref::Bytes{version}) ctx.fail("ACK: node-new notice from " + hex(parent) + " version " + std::to_string(version) + " acknowledged with " + ref::show(r.m));
				}
			if (acks != 1) ctx.fail("ACK: node-new notice was acknowledged " + std::to_string(acks) + " times (without any flush call)");
			vref++;
			new_ev = true;
			check_connectivity(ctx, c, model, "after NODE_NEW");
		} else {
			// a command to some board: current address, or rejected when disconnected
			if (c.boards.empty()) continue;
			const cfg::Board &b = c.boards[dp.pick((unsigned) c.boards.size())];
			const MNode *mn = nullptr;
			for (auto &m : model) if (m.alive && m.board == b.id) mn = &m;
			int rc;
			uint8_t want_type;
			if (b.is_track_output() && dp.flag()) { rc = bidib_set_track_output_state(b.id.c_str(), BIDIB_CS_GO); want_type = M::CS_SET_STATE; }
			else if (b.is_booster()) { rc = bidib_set_booster_power_state(b.id.c_str(), true); want_type = M::BOOST_ON; }
			else if (b.is_track_output()) { rc = bidib_set_track_output_state(b.id.c_str(), BIDIB_CS_STOP); want_type = M::CS_SET_STATE; }
			else { bidib_ping(b.id.c_str(), 0x5A); rc = mn ? 0 : 1; want_type = M::SYS_PING; }
			bidib_flush();
			ctx.desc << "  command to " << b.id << " -> " << rc << "\n";
			std::vector<TxRec> delta = n.bus.since(mark);
			if (!mn) {
				if (rc != 1 && want_type != M::SYS_PING) ctx.fail("COMMAND: command naming disconnected board " + b.id + " returned " + std::to_string(rc));
				for (auto &r : delta) if (r.m.type == want_type) ctx.fail("COMMAND: command for disconnected board " + b.id + " was sent: " + ref::show(r.m));
			} else {
				if (rc != 0) ctx.fail("COMMAND: command naming connected board " + b.id + " returned " + std::to_string(rc));
				size_t cnt = 0;
				for (auto &r : delta)
					if (r.m.type == want_type) {
						cnt++;
						if (r.m.addr != mn->addr) ctx.fail("COMMAND: command for board " + b.id + " went to " + hex(r.m.addr) + ", its current address is " + hex(mn->addr));
					}
				if (cnt != 1) ctx.fail("COMMAND: command for connected board " + b.id + " produced " + std::to_string(cnt) + " messages");
			}
			n.s.settle();
		}
	}
	n.s.stop();
	std::string an = lifecycle_anomalies(true);
	if (!an.empty()) ctx.fail("LIFECYCLE: " + an);
	ctx.nontrivial = nested && lost_ev && new_ev;
	if (nested) ctx.tag("nested-interface");
	if (lost_ev) ctx.tag("node-lost");
	if (new_ev) ctx.tag("node-new");
	if (n.bus.table_change_at >= 0) ctx.tag("table-change-during-enumeration");
	ctx.hash_src = ctx.desc.str();
}

PropReg reg({"C15", prop,
             "non-trivial: the tree has >=1 node below a nested interface and the history has >=1 node-lost and >=1 node-new "
             "event; enumeration restarts counted separately; distinct = distinct (configuration, tree, event history)",
             800, 0, false});

}  // namespace
