// C16 — Lifecycle: safe shutdown sequence, threads joined once, no leaks, restartable.
//
// Domain: 1..5 sessions in ONE process (one forked child, one world): each session is
//    normal mode with the generated valid configuration and an answering interface,
//    normal mode with a silent interface (start must return 1),
//    normal mode with a single-fault configuration (start must return 1), or
//    low-level debug mode,
// each with auto-flush off / 5 ms / 50 ms, with generated activity before the stop (state-bearing
// traffic, user commands, unanswered requests so that messages are deferred, unread queue entries,
// a larger packet capacity announced by the interface), plus stop-while-stopped and
// start-while-running calls at generated points.
// Oracle:
//   shutdown transcript of every successfully started normal session (interface answering): exactly one
//     soft-stop (CS_SET_STATE 2) per connected track output, then one drive message with speed 0 and all
//     function bytes 0 per (train, connected track output), then exactly one track-off (CS_SET_STATE 0)
//     per connected track output - all on the wire before bidib_stop returns, in this order;
//   thread ledger: every thread created in a session is joined exactly once, no join of a handle of an
//     earlier session, nothing alive after stop; no lock held after stop; LeakSanitizer clean at the end;
//   stop while stopped and start while running: no byte on the wire, no thread created, state untouched;
//   session equivalence: a session that repeats an earlier session's recipe (same mode, configuration,
//     bus, flush interval, script) produces the same startup transcript, the same probe transcript
//     (packet boundaries included: capacity 64 at session start, sequence numbers from 1) and the same
//     snapshot as the first one.
#include "harness/normal.hpp"
#include "harness/snapshot.hpp"
#include "props/known_traffic.hpp"
#include "ref/msgs.hpp"
#include <cstring>
#include <algorithm>
#include <unistd.h>
#include <fcntl.h>

using namespace vf;

namespace {

// the descriptors of this process (numbers and what they point at): a session must give back exactly what it opened and
// must not close anything it did not open
std::string open_fds() {
	std::string r;
	for (int fd = 0; fd < 256; fd++) {
		char path[64], target[256];
		snprintf(path, sizeof path, "/proc/self/fd/%d", fd);
		ssize_t k = readlink(path, target, sizeof target - 1);
		if (k < 0) continue;
		target[k] = 0;
		r += std::to_string(fd) + "->" + target + " ";
	}
	return r;
}

// callbacks handed to a start call on a library that is already running: they must never be used
ref::Bytes &alt_written() { static ref::Bytes b; return b; }
uint8_t alt_read(int *ok) { *ok = 0; return 0; }
void alt_write(uint8_t *d, int32_t n) { alt_written().insert(alt_written().end(), d, d + n); }

struct Recipe {
	int mode;            // 0 normal ok, 1 normal silent bus, 2 normal faulty config, 3 debug
	unsigned flush;
	int capacity;        // announced packet capacity (normal mode)
	ref::Bytes script;   // activity bytes (decoded by a private DP, so that a repeated recipe repeats the activity)
	int fault_cls;
};

struct Outcome { std::string startup, probe, snapshot; };

std::string show_msgs(const std::vector<ref::Msg> &v) {
	std::string s;
	for (auto &m : v) s += ref::show(m) + " ";
	return s;
}

// Fixed scenario of the known finding "shutdown commands deferred behind unanswered requests" (KNOWN_FINDINGS.txt). It
// does not depend on the generator, so that the replay file known/C16-shutdown-deferred.case (data = "KNOWN1") keeps its
// meaning when the generated domain changes.
void known_shutdown_deferred(const ref::Bytes &sched, Ctx &ctx) {
	Normal n;
	n.s.world(sched);
	cfg::Board b;
	b.id = "kb1";
	b.uid = {0x10, 0x00, 0x0D, 0x01, 0x02, 0x03, 0x04};
	cfg::Train t;
	t.id = "kt1"; t.addrh = 0; t.addrl = 3; t.steps = 126;
	n.c.boards.push_back(b);
	n.c.trains.push_back(t);
	n.present = {true};
	n.bus.attach(n.s);
	ref::Bytes none;
	DP zero(none);
	n.bus.build_tree(zero, n.c, n.present, 0);
	ctx.desc << "C16 fixed scenario: one track output kb1, one train kt1; the interface stops answering, 3 speed commands and 6 "
	            "unique-id requests to kb1 stay unanswered, then bidib_stop\n";
	if (n.start(0) != 0) ctx.fail("START: fixed configuration rejected");
	n.s.settle();
	n.bus.silent = true;
	for (int i = 0; i < 3; i++) bidib_set_train_speed("kt1", 10 + i, "kb1");
	t_bidib_node_address a = n.addr_of("kb1");
	for (int i = 0; i < 6; i++) bidib_send_sys_get_unique_id(a, 0);
	bidib_flush();
	n.s.settle();
	size_t mark = n.s.down.size();
	n.s.stop();
	std::string err;
	int soft = 0, off = 0;
	for (auto &m : n.s.msgs_since(mark, &err)) {
		if (m.type == M::CS_SET_STATE && m.data == ref::Bytes{2}) soft++;
		if (m.type == M::CS_SET_STATE && m.data == ref::Bytes{0}) off++;
	}
	if (soft != 1 || off != 1)
		ctx.fail("SHUTDOWN-DEFERRED: track output kb1 received " + std::to_string(soft) + " soft-stop and " + std::to_string(off) + " track-off commands during bidib_stop (expected exactly 1 each)");
}

void prop(DP &dp, const ref::Bytes &sched, Ctx &ctx) {
	if (dp.n >= 6 && !memcmp(dp.p, "KNOWN1", 6)) { known_shutdown_deferred(sched, ctx); return; }
	Normal n;
	NormalOpts o;
	o.gen.need_track_output = dp.chance(220);
	o.gen.max_items = 2;
	o.gen.max_trains = 9;          // enough trains for the shutdown traffic to exceed a track output's response budget
	o.present_mode = dp.chance(200) ? 1 : 0;
	n.prepare(dp, sched, o);
	Bus bus_template = n.bus;
	ctx.desc << "C16 " << n.c.summary() << "\n bus: " << n.bus.describe() << "\n";
	unsigned nsess = (unsigned) dp.range(1, 5);
	std::vector<Recipe> recipes;
	std::vector<Outcome> outcomes;
	bool had_failed_then_ok = false, diff_flush = false, repeated = false, mid_start = false;
	int sentinel_fd = -1, last_started_mode = -1;
	bool last_failed = false;
	bool unanswered_to_output = false;     // requests to a track output are unanswered (younger than the 2 s expiry) when stop is called
	std::set<unsigned> flushes;
	Session &s = n.s;

	auto quiet_call = [&](const char *what, std::function<int()> f, int expect_rc) {
		size_t mark = s.down.size();
		unsigned created = vf_threads_created();
		size_t anomalies = vf_anomaly_count();
		int rc = f();
		s.advance(20000);
		if (s.down.size() != mark) ctx.fail(std::string("NOOP: ") + what + " put " + std::to_string(s.down.size() - mark) + " bytes on the wire: " + hex(s.since(mark)));
		if (vf_threads_created() != created) ctx.fail(std::string("NOOP: ") + what + " created a thread");
		if (vf_anomaly_count() != anomalies) ctx.fail(std::string("NOOP: ") + what + ": " + vf_anomaly(anomalies));
		if (expect_rc >= 0 && rc != expect_rc) ctx.fail(std::string("NOOP: ") + what + " returned " + std::to_string(rc));
	};

	for (unsigned k = 0; k < nsess; k++) {
		Recipe r;
		if (k > 0 && dp.chance(90)) { r = recipes[dp.pick((unsigned) recipes.size())]; repeated = true; }
		else {
			r.mode = (int) dp.weighted({16, 4, 6, 8, 1, 1});
			static const unsigned FL[] = {0, 0, 5, 50};
			r.flush = FL[dp.pick(4)];
			r.capacity = dp.chance(70) ? dp.range(65, 255) : 64;
			r.script = dp.bytes((size_t) dp.range(4, 60));
			r.fault_cls = (int) dp.pick((unsigned) cfg::N_FAULT_CLASSES);
		}
		int same_as = -1;
		for (size_t j = 0; j < recipes.size(); j++)
			if (recipes[j].mode == r.mode && recipes[j].flush == r.flush && recipes[j].capacity == r.capacity && recipes[j].script == r.script && recipes[j].fault_cls == r.fault_cls) { same_as = (int) j; break; }
		recipes.push_back(r);
		flushes.insert(r.flush);
		static const char *MN[] = {"normal", "normal/silent-interface", "normal/faulty-config", "debug", "serial/no-such-device", "serial/device-that-never-answers"};
		ctx.desc << " session " << k << ": " << MN[r.mode] << " flush=" << r.flush << "ms capacity=" << r.capacity << (same_as >= 0 ? " (repeats session " + std::to_string(same_as) + ")" : "") << "\n";
		if (dp.chance(50)) { ctx.desc << "  stop while stopped\n"; quiet_call("bidib_stop while stopped", [] { bidib_stop(); return 0; }, -1); }

		// fresh bus with the same tree and knobs
		n.bus = bus_template;
		n.bus.attach(s);
		n.bus.silent = r.mode == 1;
		n.bus.capacity = (uint8_t) r.capacity;
		s.up.clear();
		unsigned created0 = vf_threads_created(), joined0 = vf_threads_joined();
		// an application descriptor opened between two sessions: a stale number kept by the library would now be the application's
		if (k > 0 && sentinel_fd < 0) sentinel_fd = open("/dev/null", O_RDONLY);
		const std::string fds0 = open_fds();
		size_t mark_start = s.down.size();
		int rc;
		DP sp(r.script);
		unanswered_to_output = false;
		if (r.mode == 3) {
			// the debug-mode switch survives bidib_stop: a later debug session need not set it again
			if (last_started_mode == 3 && dp.chance(128)) { ctx.desc << "  (debug mode not set again)\n"; rc = s.start_debug_keep_mode(r.flush); }
			else rc = s.start_debug(r.flush);
		}
		else if (r.mode == 2) {
			cfg::Faulted f;
			for (int q = 0; q < cfg::N_FAULT_CLASSES && f.cls.empty(); q++) f = cfg::inject_fault(n.c, (r.fault_cls + q) % cfg::N_FAULT_CLASSES, sp);
			if (f.cls.empty()) rc = s.start_normal("boards: 5\n", n.c.track_yaml(), n.c.train_yaml(), r.flush);
			else rc = s.start_normal(f.board, f.track, f.train, r.flush);
		} else if (r.mode >= 4) {
			// bidib_start_serial on something that is no BiDiB interface: a path that does not exist, or a device that takes every
			// byte and never answers (/dev/null). The start must fail cleanly like any other failed start.
			vf_clear_files();
			std::string fb = n.c.board_yaml(), ft = n.c.track_yaml(), fr = n.c.train_yaml();
			vf_set_file("/vf/cfg/bidib_board_config.yml", fb.c_str(), fb.size());
			vf_set_file("/vf/cfg/bidib_track_config.yml", ft.c_str(), ft.size());
			vf_set_file("/vf/cfg/bidib_train_config.yml", fr.c_str(), fr.size());
			bidib_set_lowlevel_debug_mode(false);
			rc = bidib_start_serial(r.mode == 4 ? "/nonexistent/ttyBiDiB0" : "/dev/null", "/vf/cfg", r.flush);
			s.running = rc == 0;
			ctx.tag(r.mode == 4 ? "serial-start:no-such-device" : "serial-start:device-never-answers");
			if (s.down.size() != mark_start)
				ctx.fail("SERIAL: a start on a serial device wrote " + std::to_string(s.down.size() - mark_start) + " bytes to the write callback of an earlier session: " + hex(s.since(mark_start)));
		} else rc = n.start(r.flush);
		last_started_mode = r.mode;          // every start attempt above sets the debug-mode switch (on for mode 3 only) or finds it on
		int want = (r.mode == 0 || r.mode == 3) ? 0 : 1;
		if (rc != want) ctx.fail("START: session " + std::to_string(k) + " (" + MN[r.mode] + ") returned " + std::to_string(rc) + ", expected " + std::to_string(want));
		Outcome oc;
		if (rc != 0) {
			// a failed start has stopped the library again
			std::string an = lifecycle_anomalies(true);
			if (!an.empty()) ctx.fail("LIFECYCLE after failed start of session " + std::to_string(k) + ": " + an);
			{ std::string fds1 = open_fds(); if (fds1 != fds0) ctx.fail("DESCRIPTORS: open file descriptors before the failed start of session " + std::to_string(k) + ": [" + fds0 + "] after it: [" + fds1 + "]"); }
			if (vf_threads_created() - created0 != vf_threads_joined() - joined0) ctx.fail("THREADS: failed start created " + std::to_string(vf_threads_created() - created0) + " threads but joined " + std::to_string(vf_threads_joined() - joined0));
			last_failed = true;
			outcomes.push_back(oc);
			continue;
		}
		if (last_failed) had_failed_then_ok = true;
		last_failed = false;
		s.settle();
		if (r.mode == 0) {
			std::string err;
			oc.startup = show_msgs(s.msgs_since(mark_start, &err));
			if (!err.empty()) ctx.fail("FRAMING(startup): " + err);
			oc.snapshot = snapshot_text();
		}
		// probe: fixed sends whose packet boundaries depend on the capacity in force and whose sequence numbers start at 1
		{
			size_t pm = s.down.size();
			n.bus.silent = true;
			t_bidib_node_address pa = {0x55, 0, 0};
			uint8_t buf[16];
			for (int i = 0; i < 16; i++) buf[i] = (uint8_t) (i + 1);
			// 9 messages of 23 bytes that expect no answer: 2 per packet at capacity 64, more if a larger capacity is (still) in force
			for (int i = 0; i < 9; i++) bidib_send_bm_mirror_multiple(pa, 0, 128, buf, 0);
			bidib_flush();
			oc.probe = hex(s.since(pm));
			n.bus.silent = r.mode == 1;
		}
		if (dp.chance(40)) { ctx.desc << "  start while running\n"; quiet_call("bidib_start_pointer while running", [&] { return r.mode == 3 ? s.start_debug(r.flush) : n.start(r.flush); }, 0); s.running = true; }
		// activity
		if (r.mode == 0) {
			unsigned cnt = (unsigned) sp.range(0, 12);
			inject_known_traffic(sp, n, cnt);
			// user commands and unanswered requests (deferred messages pending at stop)
			// known finding (KNOWN_FINDINGS.txt): shutdown commands queue behind unanswered requests of a track output and are
			// discarded; when it is listed, requests to track outputs are always answered and the rest of the search continues
			bool spare_outputs = ctx.excl("c16-shutdown-behind-unanswered-requests");
			unanswered_to_output = false;
			n.bus.silent = sp.chance(128);
			bool silent_now = n.bus.silent;
			if (spare_outputs) n.bus.silent = false;
			for (auto &t : n.c.trains)
				for (auto &b : n.c.boards)
					if (b.is_track_output() && n.connected(b.id) && sp.chance(128)) { bidib_set_train_speed(t.id.c_str(), sp.range(-100, 100), b.id.c_str()); if (n.bus.silent) unanswered_to_output = true; }
			if (spare_outputs) { bidib_flush(); s.settle(); n.bus.silent = silent_now; }
			for (auto &bn : n.bus.nodes) {
				if (spare_outputs && silent_now && !bn.board_id.empty() && n.c.board(bn.board_id) && n.c.board(bn.board_id)->is_track_output()) continue;
				t_bidib_node_address a = {0, 0, 0};
				if (bn.addr.size() > 0) a.top = bn.addr[0];
				if (bn.addr.size() > 1) a.sub = bn.addr[1];
				if (bn.addr.size() > 2) a.subsub = bn.addr[2];
				int reps = sp.range(0, 6);
				for (int q = 0; q < reps; q++) bidib_send_sys_get_unique_id(a, 0);
				if (reps && silent_now && !bn.board_id.empty() && n.c.board(bn.board_id) && n.c.board(bn.board_id)->is_track_output()) unanswered_to_output = true;
			}
			if (sp.flag()) bidib_flush();
			// unread queue entries
			for (int q = sp.range(0, 5); q > 0; q--) n.bus.send_from(0, M::SYS_PONG, {(uint8_t) q});
			for (int q = sp.range(0, 3); q > 0; q--) n.bus.send_from(0, M::SYS_ERROR, {0x20, (uint8_t) q});
			s.settle();
			n.bus.silent = false;
		} else {
			t_bidib_node_address a = {1, 0, 0};
			for (int q = sp.range(0, 12); q > 0; q--) bidib_send_sys_get_magic(a, 0);       // beyond the budget: deferred at stop
			ref::Msg m{{1}, 1, M::SYS_PONG, {1}};
			{
				// what the interface sends is delivered - in every session, not only in the first one
				int burst = sp.range(1, 3);
				for (int q = 0; q < burst; q++) s.inject_packet({m});
				s.settle();
				int got = 0;
				for (;;) { uint8_t *mm = bidib_read_message(); if (!mm) break; if (mm[0] >= 4 && mm[mm[0] - 1] == M::SYS_PONG) got++; free(mm); }
				if (got != burst) ctx.fail("DELIVERY: session " + std::to_string(k) + " (debug mode) received " + std::to_string(burst) + " messages from the interface but delivered " + std::to_string(got) + " to bidib_read_message");
			}
			for (int q = sp.range(0, 4); q > 0; q--) s.inject_packet({m});
			if (sp.flag()) s.advance((uint64_t) sp.range(1, 120) * 1000);
		}
		// ---- a start call in the middle of the running session, with other callbacks and pending work: it must be a no-op
		// not only at the moment of the call (no byte, no thread) but also for what follows - the buffered request still goes
		// out through the session's own connection, unread messages are still there, nothing ever reaches the other callbacks
		if (sp.chance(100)) {
			ctx.desc << "  start (other callbacks) while running, with pending work\n";
			bidib_flush();
			s.settle();
			Session::drain_messages();
			const uint8_t marker = 0xA7;
			ref::Msg pong{r.mode == 3 ? ref::Bytes{1} : ref::Bytes{}, 0, M::SYS_PONG, {marker}};
			if (r.mode == 3) { pong.seq = 0; s.inject_packet({pong}); }
			else n.bus.send_from(0, M::SYS_PONG, {marker});
			s.settle();
			bool buffered = false;
			t_bidib_node_address fresh = {0x55, 0, 0};
			if (r.mode == 3 && r.flush == 0) { bidib_send_sys_get_magic(fresh, 0); buffered = true; }        // nothing flushes it but an explicit flush
			size_t mark_mid = s.down.size();
			alt_written().clear();
			quiet_call("bidib_start_pointer (other callbacks) while running", [&] { return bidib_start_pointer(alt_read, alt_write, r.mode == 3 ? NULL : "/vf/cfg", r.flush); }, 0);
			bidib_flush();
			s.settle();
			if (!alt_written().empty()) ctx.fail("NOOP: after a start call on the running library " + std::to_string(alt_written().size()) + " bytes were written to the callbacks of that call: " + hex(alt_written()));
			if (buffered) {
				std::string err;
				bool seen = false;
				for (auto &m : s.msgs_since(mark_mid, &err)) if (m.type == M::SYS_GET_MAGIC && m.addr == ref::Bytes{0x55}) seen = true;
				if (!seen) ctx.fail("NOOP: a request buffered before a start call on the running library never reached the wire after bidib_flush");
			}
			bool got = false;
			for (;;) {
				uint8_t *mm = bidib_read_message();
				if (!mm) break;
				ref::Bytes raw(mm, mm + mm[0] + 1);
				free(mm);
				if (raw.size() >= 2 && raw[raw.size() - 1] == marker) got = true;
			}
			if (!got) ctx.fail("NOOP: a message received before a start call on the running library can no longer be read (bidib_read_message)");
			alt_written().clear();
			mid_start = true;
		}
		// ---- stop
		std::vector<std::string> outs;
		std::vector<ref::Bytes> out_addrs;
		if (r.mode == 0)
			for (auto &b : n.c.boards)
				if (b.is_track_output() && bidib_get_board_connected(b.id.c_str())) { outs.push_back(b.id); out_addrs.push_back(n.bus.nodes[(size_t) n.bus.node_of_board(b.id)].addr); }
		bidib_flush();
		s.settle();
		size_t mark_stop = s.down.size();
		s.stop();
		if (!alt_written().empty()) ctx.fail("NOOP: bidib_stop wrote " + std::to_string(alt_written().size()) + " bytes to the callbacks of a start call that was made while the library was running");
		std::string an = lifecycle_anomalies(true);
		if (!an.empty()) ctx.fail("LIFECYCLE after stop of session " + std::to_string(k) + ": " + an);
		{ std::string fds1 = open_fds(); if (fds1 != fds0) ctx.fail("DESCRIPTORS: open file descriptors before session " + std::to_string(k) + ": [" + fds0 + "] after its stop: [" + fds1 + "]"); }
		if (vf_threads_created() - created0 != vf_threads_joined() - joined0)
			ctx.fail("THREADS: session " + std::to_string(k) + " created " + std::to_string(vf_threads_created() - created0) + " threads but joined " + std::to_string(vf_threads_joined() - joined0));
		if (r.mode == 0) {
			std::string err;
			std::vector<ref::Msg> tail = s.msgs_since(mark_stop, &err);
			if (!err.empty()) ctx.fail("FRAMING(shutdown): " + err);
			// phases: 0 soft-stop, 1 drive, 2 off
			int phase = 0;
			std::map<std::string, int> soft, off;
			std::map<std::string, int> drive;
			for (auto &m : tail) {
				std::string a(m.addr.begin(), m.addr.end());
				bool to_output = std::find(out_addrs.begin(), out_addrs.end(), m.addr) != out_addrs.end();
				if (m.type == M::CS_SET_STATE && m.data.size() == 1 && m.data[0] == 2 && to_output) { if (phase > 0) ctx.fail("SHUTDOWN-ORDER: soft-stop after drive/off commands: " + show_msgs(tail)); soft[a]++; }
				else if (m.type == M::CS_DRIVE && m.data.size() == 9 && to_output) {
					if (phase > 1) ctx.fail("SHUTDOWN-ORDER: drive command after track-off: " + show_msgs(tail));
					phase = 1;
					if ((m.data[4] & 0x7f) != 0 || m.data[5] || m.data[6] || m.data[7] || m.data[8]) continue;      // some other drive command (deferred user command)
					drive[a + "/" + std::to_string(m.data[1] << 8 | m.data[0])]++;
				} else if (m.type == M::CS_SET_STATE && m.data.size() == 1 && m.data[0] == 0 && to_output) { phase = 2; off[a]++; }
			}
			for (size_t q = 0; q < outs.size(); q++) {
				std::string a(out_addrs[q].begin(), out_addrs[q].end());
				const char *P = unanswered_to_output ? "SHUTDOWN-DEFERRED" : "SHUTDOWN";
				if (soft[a] != 1) ctx.fail(std::string(P) + ": track output " + outs[q] + " received " + std::to_string(soft[a]) + " soft-stop commands during bidib_stop (expected exactly 1): " + show_msgs(tail));
				if (off[a] != 1) ctx.fail(std::string(P) + ": track output " + outs[q] + " received " + std::to_string(off[a]) + " track-off commands during bidib_stop (expected exactly 1): " + show_msgs(tail));
				for (auto &t : n.c.trains) {
					int got = drive[a + "/" + std::to_string(t.addrh << 8 | t.addrl)];
					if (got < 1) ctx.fail(std::string(P) + ": no zero-speed / functions-off drive message for train " + t.id + " to track output " + outs[q] + " during bidib_stop: " + show_msgs(tail));
				}
			}
			if (!outs.empty()) ctx.tag("shutdown-with-connected-track-output");
		}
		if (same_as >= 0 && !outcomes[(size_t) same_as].probe.empty()) {
			const Outcome &f = outcomes[(size_t) same_as];
			if (f.probe != oc.probe) ctx.fail("SESSION-EQUIVALENCE: the probe transcript of session " + std::to_string(k) + " differs from session " + std::to_string(same_as) + " with the same recipe: " + oc.probe + " vs " + f.probe);
			if (f.startup != oc.startup) ctx.fail("SESSION-EQUIVALENCE: the startup transcript of session " + std::to_string(k) + " differs from session " + std::to_string(same_as) + ":\n " + oc.startup + "\n vs\n " + f.startup);
			if (f.snapshot != oc.snapshot) ctx.fail("SESSION-EQUIVALENCE: the snapshot after startup of session " + std::to_string(k) + " differs from session " + std::to_string(same_as));
			ctx.tag("repeated-session-compared");
		}
		// the probe of every debug session, and of every normal session with capacity 64, equals the first such probe
		outcomes.push_back(oc);
		for (size_t j = 0; j + 1 < outcomes.size(); j++)
			if (!outcomes[j].probe.empty() && recipes[j].mode == 3 && r.mode == 3 && outcomes[j].probe != oc.probe)
				ctx.fail("SESSION-EQUIVALENCE: debug-mode probe of session " + std::to_string(k) + " differs from that of session " + std::to_string(j) + " (packet capacity or numbering survived a stop): " + oc.probe + " vs " + outcomes[j].probe);
		if (dp.chance(50)) { ctx.desc << "  stop while stopped\n"; quiet_call("bidib_stop while stopped", [] { bidib_stop(); return 0; }, -1); }
	}
	diff_flush = flushes.size() >= 2;
	if (diff_flush) ctx.tag("sessions-with-different-auto-flush");
	if (had_failed_then_ok) ctx.tag("failed-start-then-successful-start");
	if (repeated) ctx.tag("recipe-repeated");
	if (mid_start) ctx.tag("start-while-running-with-pending-work");
	ctx.count("sessions", (long) nsess);
	ctx.nontrivial = (nsess >= 2 && diff_flush) || had_failed_then_ok;
	ctx.hash_src = ctx.desc.str() + hex(dp.p, dp.n);
}

PropReg reg({"C16", prop,
             "non-trivial: >=2 sessions with different auto-flush settings, or a failed start followed by a successful one; "
             "repeated recipes (session equivalence) and shutdowns with connected track outputs are tagged; distinct = distinct session lists",
             1100, 0, true});

}  // namespace
