// C17 — Query results are initialised deep copies, safe to free for known and unknown ids.
//
// Domain: generated configuration + node tree, normal-mode session, a short generated state history
// (props/known_traffic.hpp), then a generated list of getter calls: every public getter x {known id,
// id of another kind, unknown id, NULL}. Each result is rendered field by field (props/getters.hpp),
// kept alive while the state is mutated further (more messages, user commands) and - in part of the
// cases - while the library is stopped, rendered again, and freed exactly once.
// Oracle:
//   (a) AddressSanitizer build: no use-after-free / double free / invalid free when the fields and
//       everything they point to are read after the mutation and after bidib_stop, and when the free
//       function runs; the second rendering equals the first (deep copy, independent of later state).
//   (b) the same property under Valgrind Memcheck (flavour `plain`): VALGRIND_CHECK_MEM_IS_DEFINED on
//       every field of every result and of everything it points to - for known AND unknown ids.
//   (c) at a quiescent moment bidib_get_state holds, for every entity, the same values as the
//       corresponding single-entity getter.
#include "harness/normal.hpp"
#include "props/getters.hpp"
#include "props/known_traffic.hpp"
#include <cstring>
#include <algorithm>

using namespace vf;

namespace {

struct Pools {
	std::vector<std::string> by_kind[14];
	std::vector<std::pair<std::string, std::string>> train_periphs;
	std::vector<std::array<uint8_t, 7>> uids;
	std::vector<std::array<uint8_t, 3>> naddrs;
	std::vector<std::array<uint8_t, 2>> dccs;
};

Pools pools_of(Normal &n) {
	Pools p;
	for (auto &b : n.c.boards) {
		p.by_kind[gq::A_BOARD].push_back(b.id);
		if (b.is_booster()) p.by_kind[gq::A_BOOSTER].push_back(b.id);
		if (b.is_track_output()) p.by_kind[gq::A_OUTPUT].push_back(b.id);
		p.uids.push_back(b.uid);
		if (!b.in_track) continue;
		for (auto &x : b.points_board) p.by_kind[gq::A_POINT].push_back(x.id);
		for (auto &x : b.points_dcc) p.by_kind[gq::A_POINT].push_back(x.id);
		for (auto &x : b.signals_board) p.by_kind[gq::A_SIGNAL].push_back(x.id);
		for (auto &x : b.signals_dcc) p.by_kind[gq::A_SIGNAL].push_back(x.id);
		for (auto &x : b.peripherals) p.by_kind[gq::A_PERIPHERAL].push_back(x.id);
		for (auto &x : b.segments) p.by_kind[gq::A_SEGMENT].push_back(x.id);
		for (auto &x : b.reversers) p.by_kind[gq::A_REVERSER].push_back(x.id);
	}
	for (auto &t : n.c.trains) {
		p.by_kind[gq::A_TRAIN].push_back(t.id);
		p.dccs.push_back({t.addrl, t.addrh});
		for (auto &f : t.periphs) p.train_periphs.push_back({t.id, f.id});
	}
	for (auto &bn : n.bus.nodes) {
		std::array<uint8_t, 3> a = {0, 0, 0};
		for (size_t i = 0; i < bn.addr.size() && i < 3; i++) a[i] = bn.addr[i];
		p.naddrs.push_back(a);
	}
	return p;
}

std::string render(const gq::Result &r, bool strict) {
	gq::Render v;
	r.visit(v, strict);
	return v.o.str();
}

struct Kept { std::string what, text; gq::Result r; };

void prop(DP &dp, const ref::Bytes &sched, Ctx &ctx) {
	Normal n;
	NormalOpts o;
	o.gen.max_items = 2;
	o.present_mode = dp.chance(200) ? 1 : 0;
	n.prepare(dp, sched, o);
	ctx.desc << "C17 " << n.c.summary() << "\n bus: " << n.bus.describe() << "\n";
	if (n.start(0) != 0) ctx.fail("START: valid configuration rejected");
	n.s.settle();
	n.bus.silent = true;
	Pools P = pools_of(n);
	const bool vg = RUNNING_ON_VALGRIND;
	unsigned pre = (unsigned) dp.range(0, 12);
	unsigned changes = inject_known_traffic(dp, n, pre, &ctx.desc);
	Session::drain_messages();
	Session::drain_errors();

	// ---- (c) snapshot vs single-entity getters, every entity, every field
	{
		t_bidib_track_state st = bidib_get_state();
		auto cmp = [&](const char *kind, const char *id, const std::string &snap, const std::string &single) {
			if (snap != single) {
				std::string msg = std::string("SNAPSHOT: ") + kind + " " + (id ? id : "(null)") + ": bidib_get_state has [" + snap + "] but the single-entity getter returns [" + single + "]";
				bidib_free_track_state(st);          // `id` points into the snapshot: message first
				ctx.fail(msg);
			}
		};
		for (int k = 0; k < 2; k++) {
			size_t cnt = k == 0 ? st.points_board_count : st.signals_board_count;
			for (size_t i = 0; i < cnt; i++) {
				const t_bidib_board_accessory_state &a = (k == 0 ? st.points_board : st.signals_board)[i];
				// the index getters name the position of the entity within these arrays
				size_t ix = k == 0 ? bidib_get_point_state_index(a.id) : bidib_get_signal_state_index(a.id);
				cmp(k == 0 ? "point (index getter)" : "signal (index getter)", a.id, std::to_string(i), std::to_string(ix));
				gq::Render s1, s2;
				gq::visit(s1, a.data);
				t_bidib_unified_accessory_state_query q = k == 0 ? bidib_get_point_state(a.id) : bidib_get_signal_state(a.id);
				if (q.known && q.type == BIDIB_ACCESSORY_BOARD) gq::visit(s2, q.board_accessory_state); else s2.o << "(not known as board accessory)";
				std::string t1 = s1.o.str(), t2 = s2.o.str();
				bidib_free_unified_accessory_state_query(q);
				cmp(k == 0 ? "point" : "signal", a.id, t1, t2);
			}
			cnt = k == 0 ? st.points_dcc_count : st.signals_dcc_count;
			for (size_t i = 0; i < cnt; i++) {
				const t_bidib_dcc_accessory_state &a = (k == 0 ? st.points_dcc : st.signals_dcc)[i];
				gq::Render s1, s2;
				gq::visit(s1, a.data);
				t_bidib_unified_accessory_state_query q = k == 0 ? bidib_get_point_state(a.id) : bidib_get_signal_state(a.id);
				if (q.known && q.type == BIDIB_ACCESSORY_DCC) gq::visit(s2, q.dcc_accessory_state); else s2.o << "(not known as DCC accessory)";
				std::string t1 = s1.o.str(), t2 = s2.o.str();
				bidib_free_unified_accessory_state_query(q);
				cmp(k == 0 ? "DCC point" : "DCC signal", a.id, t1, t2);
			}
		}
		for (size_t i = 0; i < st.peripherals_count; i++) {
			gq::Render s1, s2;
			gq::visit(s1, st.peripherals[i].data);
			t_bidib_peripheral_state_query q = bidib_get_peripheral_state(st.peripherals[i].id);
			if (q.available) gq::visit(s2, q.data); else s2.o << "(not available)";
			std::string t2 = s2.o.str();
			bidib_free_peripheral_state_query(q);
			cmp("peripheral", st.peripherals[i].id, s1.o.str(), t2);
		}
		for (size_t i = 0; i < st.segments_count; i++) {
			cmp("segment (index getter)", st.segments[i].id, std::to_string(i), std::to_string(bidib_get_segment_state_index(st.segments[i].id)));
			gq::Render s1, s2;
			gq::visit(s1, st.segments[i].data, false);
			t_bidib_segment_state_query q = bidib_get_segment_state(st.segments[i].id);
			if (q.known) gq::visit(s2, q.data, false); else s2.o << "(not known)";
			std::string t2 = s2.o.str();
			bidib_free_segment_state_query(q);
			cmp("segment", st.segments[i].id, s1.o.str(), t2);
		}
		for (size_t i = 0; i < st.reversers_count; i++) {
			gq::Render s1, s2;
			gq::visit(s1, st.reversers[i].data);
			t_bidib_reverser_state_query q = bidib_get_reverser_state(st.reversers[i].id);
			if (q.available) gq::visit(s2, q.data); else s2.o << "(not available)";
			std::string t2 = s2.o.str();
			bidib_free_reverser_state_query(q);
			cmp("reverser", st.reversers[i].id, s1.o.str(), t2);
		}
		for (size_t i = 0; i < st.trains_count; i++) {
			gq::Render s1, s2;
			gq::visit(s1, st.trains[i].data, false);
			t_bidib_train_state_query q = bidib_get_train_state(st.trains[i].id);
			if (q.known) gq::visit(s2, q.data, false); else s2.o << "(not known)";
			std::string t2 = s2.o.str();
			bidib_free_train_state_query(q);
			cmp("train", st.trains[i].id, s1.o.str(), t2);
		}
		for (size_t i = 0; i < st.booster_count; i++) {
			gq::Render s1, s2;
			gq::visit(s1, st.booster[i].data, false);
			t_bidib_booster_state_query q = bidib_get_booster_state(st.booster[i].id);
			if (q.known) gq::visit(s2, q.data, false); else s2.o << "(not known)";
			cmp("booster", st.booster[i].id, s1.o.str(), s2.o.str());
		}
		for (size_t i = 0; i < st.track_outputs_count; i++) {
			t_bidib_track_output_state_query q = bidib_get_track_output_state(st.track_outputs[i].id);
			cmp("track output", st.track_outputs[i].id, std::to_string((int) st.track_outputs[i].cs_state), q.known ? std::to_string((int) q.cs_state) : "(not known)");
		}
		bidib_free_track_state(st);
	}

	// ---- (a)/(b): getter calls
	const auto &G = gq::getters();
	unsigned ncalls = (unsigned) dp.range(1, 16);
	std::vector<Kept> kept;
	std::set<std::string> kinds;
	bool any_known = false, any_unknown = false;
	for (unsigned i = 0; i < ncalls && (i < 2 || dp.more()); i++) {
		const gq::Getter &g = G[dp.pick((unsigned) G.size())];
		unsigned cls = g.arg == gq::A_NONE ? 0 : dp.weighted({8, 5, 3, 3});     // known / unknown / NULL / id of another kind
		std::string id, id2;
		const char *pid = nullptr, *pid2 = nullptr;
		uint8_t raw[7] = {0xEE, 0xEE, 0xEE, 0xEE, 0xEE, 0xEE, 0xEE};
		std::string argtxt;
		auto from_pool = [&](int kind) -> bool {
			if (P.by_kind[kind].empty()) return false;
			id = P.by_kind[kind][dp.pick((unsigned) P.by_kind[kind].size())];
			return true;
		};
		if (g.arg == gq::A_UID) {
			if (cls == 0 && !P.uids.empty()) { auto &u = P.uids[dp.pick((unsigned) P.uids.size())]; memcpy(raw, u.data(), 7); argtxt = "uid " + hex(raw, 7); any_known = true; }
			else { argtxt = "unknown uid"; any_unknown = true; }
		} else if (g.arg == gq::A_NODEADDR) {
			if (cls == 0 && !P.naddrs.empty()) { auto &a = P.naddrs[dp.pick((unsigned) P.naddrs.size())]; memcpy(raw, a.data(), 3); argtxt = "node address " + hex(raw, 3); any_known = true; }
			else { raw[0] = 0xEE; raw[1] = 0xEE; raw[2] = 0xEE; argtxt = "unknown node address"; any_unknown = true; }
		} else if (g.arg == gq::A_DCCADDR) {
			if (cls == 0 && !P.dccs.empty()) { auto &a = P.dccs[dp.pick((unsigned) P.dccs.size())]; raw[0] = a[0]; raw[1] = a[1]; argtxt = "dcc " + hex(raw, 2); any_known = true; }
			else { raw[0] = 0xEE; raw[1] = 0x3E; argtxt = "unknown dcc address"; any_unknown = true; }
		} else if (g.arg == gq::A_TRAIN_PERIPH) {
			if (cls == 0 && !P.train_periphs.empty()) { auto &tp = P.train_periphs[dp.pick((unsigned) P.train_periphs.size())]; id = tp.first; id2 = tp.second; pid = id.c_str(); pid2 = id2.c_str(); any_known = true; }
			else if (cls == 2) { if (dp.flag() && from_pool(gq::A_TRAIN)) pid = id.c_str(); any_unknown = true; }
			else { if (from_pool(gq::A_TRAIN) && dp.flag()) pid = id.c_str(); else { id = "no_such_train"; pid = id.c_str(); } id2 = "no_such_function"; pid2 = id2.c_str(); any_unknown = true; }
			argtxt = std::string(pid ? pid : "NULL") + ", " + (pid2 ? pid2 : "NULL");
		} else if (g.arg != gq::A_NONE) {
			if (cls == 0 && from_pool(g.arg)) { pid = id.c_str(); any_known = true; }
			else if (cls == 2) { pid = nullptr; any_unknown = true; }
			else if (cls == 3) { int other = 1 + (int) dp.pick(9); if (other != g.arg && from_pool(other)) pid = id.c_str(); else { id = "no_such_id"; pid = id.c_str(); } any_unknown = true; }
			else { id = "no_such_id"; pid = id.c_str(); any_unknown = true; }
			argtxt = pid ? pid : "NULL";
		}
		std::string what = std::string(g.name) + "(" + argtxt + ")";
		ctx.desc << "  " << what << "\n";
		kinds.insert(g.name);
		gq::Result r = g.call(pid, pid2, raw);
		if (vg) {
			gq::Defined d;
			r.visit(d, true);
			if (!d.undefined.empty()) {
				std::string l;
				for (auto &f : d.undefined) l += f + " ";
				ctx.fail("UNINITIALISED: " + what + " returned a result with uninitialised field(s): " + l);
			}
		}
		kept.push_back({what, render(r, true), r});
	}
	// ---- mutate the state, then (part of the cases) stop the library
	unsigned post = (unsigned) dp.range(1, 10);
	changes += inject_known_traffic(dp, n, post, &ctx.desc);
	for (auto &k : kept) {
		std::string again = render(k.r, true);
		if (again != k.text) ctx.fail("DEEP-COPY: the result of " + k.what + " changed when the tracked state changed afterwards: [" + k.text + "] -> [" + again + "]");
	}
	bool stopped = dp.chance(128);
	if (stopped) {
		n.s.stop();
		for (auto &k : kept) {
			std::string again = render(k.r, true);
			if (again != k.text) ctx.fail("DEEP-COPY: the result of " + k.what + " changed when the library was stopped: [" + k.text + "] -> [" + again + "]");
		}
	}
	for (auto &k : kept) k.r.free_();
	kept.clear();
	if (!stopped) n.s.stop();
	std::string an = lifecycle_anomalies(true);
	if (!an.empty()) ctx.fail("LIFECYCLE: " + an);
	if (stopped) ctx.tag("results-read-after-stop");
	if (vg) ctx.tag("memcheck-definedness");
	for (auto &k : kinds) ctx.tag(k);
	ctx.count("state-changing-messages", changes);
	ctx.nontrivial = any_known && any_unknown && kinds.size() >= 3 && changes >= 1;
	ctx.hash_src = ctx.desc.str();
}

PropReg reg({"C17", prop,
             "non-trivial: >=1 query with a known and >=1 with an unknown / NULL / foreign id on >=3 getter kinds, after >=1 "
             "state-changing message; every getter exercised is tagged; distinct = distinct (configuration, history, call list)",
             1200, 0, true});

}  // namespace
