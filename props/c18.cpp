// C18 — Each low-level send function validates its parameters and encodes one message.
//
// Domain: every public bidib_send_* constructor (table in harness/sends.cpp; bidib_send_sys_reset
// is a dialogue, not a constructor, and belongs to C20) x node address depth 0..3 x scalars over
// 0..255 with the documented range boundaries weighted up x payloads of length 0, small,
// maximum, maximum+1 and arbitrary, in caller buffers of exactly that size (ASan).
// Each call runs in its own debug-mode session (fresh flow-control state), then flush.
// Oracle: either nothing is on the wire and some argument is outside its documented range,
// or exactly one well-formed message with the reference encoding, type < 0x80 and a length
// byte <= 127.
#include "harness/vf.hpp"
#include "harness/sends.hpp"
#include "harness/bidib_cxx.h"
#include <cstring>

using namespace vf;

namespace {

void prop(DP &dp, const ref::Bytes &sched, Ctx &ctx) {
	Session s;
	s.world(sched);
	unsigned ncalls = (unsigned) dp.range(1, 8);
	bool any_boundary = false;
	std::string hs;
	for (unsigned k = 0; k < ncalls && (k == 0 || dp.more()); k++) {
		SendCall c = draw_send(dp, false);
		const SendFn &f = send_table()[(size_t) c.fn];
		if (ctx.excl("c18-fwdata-len128") && !strcmp(f.name, "bidib_send_fw_update_op_data") && c.p1.size() == 121) c.p1.resize(120);
		if (ctx.excl("c18-macromap-size0") && !strcmp(f.name, "bidib_send_accessory_para_set_macromap") && c.p1.empty()) c.p1 = {0xFF};
		bool in_range = false, defined = true;
		ref::Msg exp = expected_msg(c, &in_range, &defined);
		ctx.desc << c.text() << (in_range ? "   [in documented range]" : "   [out of range]") << "\n";
		hs += c.text();
		// boundary classification
		bool boundary = false;
		for (size_t i = 0; i < c.a.size() && i < f.bounds.size(); i++)
			for (int b : f.bounds[i])
				if (c.a[i] == b) boundary = true;
		if (f.p1max >= 0 && ((int) (c.p1.size() + c.p2.size()) == f.p1max || (int) (c.p1.size() + c.p2.size()) == f.p1max + 1 || c.p1.empty()))
			boundary = true;
		any_boundary |= boundary;
		ctx.count(std::string("fn:") + f.name);

		if (s.start_debug(0) != 0) ctx.fail("START: debug-mode start returned non-zero");
		size_t mark = s.mark();
		do_send(c);
		bidib_flush();
		ref::Bytes delta = s.since(mark);
		ref::StreamDecode d = ref::decode_strict(delta);
		if (!d.error.empty()) ctx.fail("FRAMING: " + c.text() + " produced bytes that are not well-formed packets: " + d.error + " wire=" + hex(delta));
		std::vector<ref::Msg> msgs;
		size_t lenbyte = 0;
		for (auto &p : d.packets) {
			for (auto &m : p.msgs) msgs.push_back(m);
			if (!p.payload.empty()) lenbyte = p.payload[0];
		}
		if (msgs.empty()) {
			if (in_range) ctx.fail("REJECTED-VALID: " + c.text() + " has all arguments inside their documented ranges but nothing was sent");
			ctx.count("rejected");
		} else if (msgs.size() > 1) {
			ctx.fail("MULTIPLE: " + c.text() + " produced " + std::to_string(msgs.size()) + " messages");
		} else {
			const ref::Msg &m = msgs[0];
			if (lenbyte > 127) ctx.fail("LENGTH: " + c.text() + " produced a message with length byte " + std::to_string(lenbyte) + " > 127");
			if (m.type >= 0x80) ctx.fail("TYPE: " + c.text() + " produced uplink type code " + std::to_string(m.type));
			if (m.addr != c.addr) ctx.fail("ADDRESS: " + c.text() + " was sent to " + ref::show(m));
			if (m.type != exp.type) ctx.fail("TYPE: " + c.text() + " produced type " + std::to_string(m.type) + ", expected " + std::to_string(exp.type));
			if (defined && m.data != exp.data)
				ctx.fail("ENCODING: " + c.text() + " produced data " + hex(m.data) + ", specified encoding is " + hex(exp.data));
			// "either rejects parameters outside the ranges its message allows, submitting nothing, or ...": the reference
			// ranges are the documented ones (include/lowlevel/*.h); where a header is silent, the set the pinned library
			// accepts. A call outside them must submit nothing.
			if (!in_range) ctx.fail("ACCEPTED-OUT-OF-RANGE: " + c.text() + " has an argument outside the range its message allows but " + ref::show(m) + " was submitted");
			ctx.count("accepted-in-range");
		}
		s.stop();
		std::string an = lifecycle_anomalies(true);
		if (!an.empty()) ctx.fail("LIFECYCLE: " + an);
	}
	ctx.nontrivial = any_boundary;
	if (any_boundary) ctx.tag("boundary-argument");
	ctx.hash_src = hs;
}

PropReg reg({"C18", prop,
             "non-trivial: at least one call of the case has a scalar on a documented range boundary (or boundary+-1) or "
             "a payload of length 0, maximum or maximum+1; distinct = distinct call texts (function, address, arguments, payload)",
             500, 0, false});

}  // namespace
