// C19 — Secure-ACK: each occupancy report of a SecAck board is mirrored exactly once.
//
// Domain: normal-mode session on a generated configuration in which feature 0x03 (secure
// acknowledgement) is, per board, absent / present with value 0 / present with a value > 0;
// generated node tree (configured boards plus nodes unknown to the configuration); after
// startup the simulated bus stops answering on its own and the history is generated:
//    report(node, OCC | FREE | MULTIPLE | POSITION)   any detector number, bitmap base 8k and
//                                size 8..128, any position payload, OCC/FREE optionally with a timestamp
//    send(node, request)         low-level requests whose answers never arrive by themselves
//                                (response budget fills up; BM_GET_RANGE is credited by reports)
//    answer(node)                the answer to the oldest outstanding request
//    stall(node, 0|1)            any node incl. the interface and interfaces above the board
//    advance t                   lost responses expire after 2 s
// NO harness flush except directly after the harness' own low-level sends; auto-flush off.
// Oracle (per node, submissions = own requests + expected mirrors, in submission order):
//   (F) the decoded wire to a node is a prefix of its submission list: every mirror exactly once,
//       byte-identical payload, before anything submitted later; no mirror type to a board
//       without SecAck or to an unknown node (it would be an unexpected message)
//   (I) after the report has been processed, a node that is not stall-blocked and has room in
//       its budget (FIFO upper-bound model, mirrors need 0 bytes) has the mirror on the wire
//       although nobody called flush
//   (R) the same obligation at every later activation of the node (answer, unstall) and
//   (E) at the end (stalls cleared, everything answered) every mirror is out exactly once.
#include "harness/normal.hpp"
#include "harness/sends.hpp"
#include "ref/msgs.hpp"
#include "ref/resp.hpp"
#include <cstring>
#include <algorithm>

using namespace vf;

namespace {

struct Sub { ref::Msg m; int size; uint64_t t_sub; bool mirror; };
struct OutP { uint8_t type; int size; uint64_t t; bool credited; };
struct OutQ { uint8_t type; int size; uint64_t t; };
struct NodeM {
	int bus_idx = 0;
	ref::Bytes addr;
	bool secack = false;
	bool configured = false;
	std::vector<Sub> subs;
	size_t wire_count = 0;
	std::vector<OutP> p;
	std::deque<OutQ> q;
	bool stalled = false;
};

bool accepts(uint8_t req, uint8_t ans) {
	const ref::RespInfo &r = ref::RESP[req & 0x7f];
	for (int i = 0; i < r.n - 1 && i < 3; i++)
		if (r.ans[i] == ans) return true;
	return false;
}
uint64_t sec(uint64_t us) { return us / 1000000ULL; }

// well-formed payload for an injected uplink message of type t (malformed messages are C12's domain)
ref::Bytes answer_payload(uint8_t t) {
	switch (t) {
	case M::SYS_UNIQUE_ID: return {0x05, 0x00, 0x0D, 0x01, 0x02, 0x03, 0x04};
	case M::VENDOR: return {1, 'a', 1, 'b'};
	case M::SYS_PONG: return {7};
	case M::FEATURE: return {200, 1};
	case M::FEATURE_NA: return {255};
	case M::STRING: return {0, 0, 0};
	case M::BM_FREE: return {0};
	default: return {0, 0, 0, 0, 0};      // BM_CV: addr_l addr_h cv_l cv_h value
	}
}

const char *REQS[] = {"bidib_send_sys_get_unique_id", "bidib_send_vendor_get", "bidib_send_bm_get_range",
                      "bidib_send_sys_ping", "bidib_send_feature_getnext", "bidib_send_string_get", "bidib_send_vendor_get",
                      "bidib_send_bm_get_range"};
int fn_index(const char *name) {
	const auto &t = send_table();
	for (size_t i = 0; i < t.size(); i++)
		if (!strcmp(t[i].name, name)) return (int) i;
	return 0;
}

void prop(DP &dp, const ref::Bytes &sched, Ctx &ctx) {
	Normal n;
	NormalOpts o;
	o.gen.max_boards = 3;
	o.gen.min_boards = 2;
	o.gen.max_items = 2;
	o.gen.max_trains = 1;
	o.gen.need_segments = dp.chance(128);
	o.present_mode = dp.chance(200) ? 1 : 0;
	n.prepare(dp, sched, o);
	// the generated configuration is valid; here only feature 0x03 is re-drawn per board
	int kinds_of_setting = 0;
	bool any_on = false, any_off = false;
	for (auto &b : n.c.boards) {
		unsigned how = dp.weighted({2, 5, 2, 2});     // keep / value > 0 / value 0 / absent
		if (how == 0) continue;
		b.features.erase(std::remove_if(b.features.begin(), b.features.end(), [](const cfg::Feature &f) { return f.number == 3; }), b.features.end());
		if (how == 1) { b.features_key = true; b.features.push_back({3, (uint8_t) (dp.chance(128) ? 1 : dp.range(1, 255))}); }
		if (how == 2) { b.features_key = true; b.features.push_back({3, 0}); }
	}
	ctx.desc << "C19 " << n.c.summary() << "\n bus: " << n.bus.describe() << "\n secack:";
	for (auto &b : n.c.boards) ctx.desc << " " << b.id << "=" << (b.secack() ? "on" : "off");
	ctx.desc << "\n";
	if (n.start(0) != 0) ctx.fail("START: valid configuration rejected");
	n.s.settle();
	// whatever the startup dialogue left unanswered has expired before the history begins
	n.s.advance(3000000);
	n.s.settle();
	Session::drain_messages();
	Session::drain_errors();
	n.bus.silent = true;

	std::vector<NodeM> nodes;
	for (size_t i = 0; i < n.bus.nodes.size(); i++) {
		if (n.bus.nodes[i].gone) continue;
		NodeM m;
		m.bus_idx = (int) i;
		m.addr = n.bus.nodes[i].addr;
		const cfg::Board *b = n.bus.nodes[i].board_id.empty() ? nullptr : n.c.board(n.bus.nodes[i].board_id);
		m.configured = b != nullptr;
		m.secack = b && b->secack();
		if (m.configured) (m.secack ? any_on : any_off) = true;
		nodes.push_back(m);
	}
	kinds_of_setting = (any_on ? 1 : 0) + (any_off ? 1 : 0);
	auto an = [](const ref::Bytes &a) { return a.empty() ? std::string("0") : hex(a); };
	auto blocked = [&](const NodeM &x) {
		for (auto &a : nodes)
			if (a.stalled && a.addr.size() <= x.addr.size() && std::equal(a.addr.begin(), a.addr.end(), x.addr.begin())) return true;
		return false;
	};
	auto qexpire = [&](NodeM &x, uint64_t now) {
		while (!x.q.empty() && sec(now) - sec(x.q.front().t) >= 2) x.q.pop_front();
	};
	auto qsum = [&](NodeM &x) { int s = 0; for (auto &e : x.q) s += e.size; return s; };
	auto psum = [&](NodeM &x, uint64_t now) {
		int s = 0;
		for (auto &e : x.p) if (!e.credited && sec(now) - sec(e.t) < 2) s += e.size;
		return s;
	};

	size_t mark = n.s.down.size();
	bool ev_blocked_mirror = false, ev_budget_blocked = false;
	std::set<int> kinds_seen;
	unsigned mirrors_expected = 0;
	auto absorb = [&](const char *when) {
		if (n.s.down.size() == mark) return;
		ref::Bytes delta = n.s.since(mark);
		mark = n.s.down.size();
		ref::StreamDecode d = ref::decode_strict(delta);
		if (!d.error.empty()) ctx.fail(std::string("FRAMING: ") + d.error);
		uint64_t now = vf_now_us();
		for (auto &pk : d.packets)
			for (auto &m : pk.msgs) {
				NodeM *x = nullptr;
				for (auto &y : nodes) if (y.addr == m.addr) x = &y;
				bool is_mirror = m.type == M::BM_MIRROR_OCC || m.type == M::BM_MIRROR_FREE || m.type == M::BM_MIRROR_MULTIPLE || m.type == M::BM_MIRROR_POSITION;
				if (!x) ctx.fail("UNEXPECTED: message to an address that is not on the bus: " + ref::show(m));
				if (x->wire_count >= x->subs.size()) {
					if (is_mirror && !x->secack)
						ctx.fail("MIRROR-WITHOUT-SECACK: " + ref::show(m) + " sent to node " + an(x->addr) + (x->configured ? " whose board does not enable feature 0x03" : " which is not a configured board") + " (" + when + ")");
					ctx.fail(std::string(is_mirror ? "MIRROR-DUPLICATE" : "UNEXPECTED") + ": " + ref::show(m) + " to node " + an(x->addr) + " but nothing (more) was submitted for it (" + when + ")");
				}
				Sub &sb = x->subs[x->wire_count];
				if (!sb.m.same_but_seq(m))
					ctx.fail(std::string(is_mirror || sb.mirror ? "MIRROR-MISMATCH" : "FIFO") + ": wire message to node " + an(x->addr) + " is " + ref::show(m) + " but the next expected one is " + ref::show(sb.m) + " (" + when + ")");
				if (blocked(*x)) ctx.fail("STALL-SAFETY: " + ref::show(m) + " reached the wire while node " + an(x->addr) + " or an ancestor is stalled (" + when + ")");
				if (psum(*x, now) + sb.size > 48) ctx.fail("BUDGET-SAFETY: " + ref::show(m) + " sent beyond the response budget of node " + an(x->addr));
				x->wire_count++;
				if (sb.size > 0) {
					x->p.push_back({sb.m.type, sb.size, sb.t_sub, false});
					x->q.push_back({sb.m.type, sb.size, now});
				}
			}
	};
	auto liveness = [&](NodeM &x, const char *when) {
		if (blocked(x)) return;
		int sum = qsum(x);
		size_t must = x.wire_count;
		while (must < x.subs.size() && sum + x.subs[must].size <= 48) { sum += x.subs[must].size; must++; }
		if (must > x.wire_count) {
			const Sub &h = x.subs[x.wire_count];
			ctx.fail(std::string(h.mirror ? "MIRROR-MISSING" : "STRANDED") + ": node " + an(x.addr) + " is not stalled and its budget has room (" + std::to_string(qsum(x)) +
			         " bytes outstanding) but " + ref::show(h.m) + " submitted at " + std::to_string(h.t_sub / 1000) + " ms is not on the wire at " +
			         std::to_string(vf_now_us() / 1000) + " ms although no flush is needed for it (" + when + ")");
		}
	};
	auto model_rx = [&](NodeM &x, uint8_t t) {
		uint64_t now = vf_now_us();
		OutP *best = nullptr;
		for (auto &e : x.p)
			if (!e.credited && sec(now) - sec(e.t) < 2 && accepts(e.type, t) && (!best || e.size > best->size)) best = &e;
		if (best) best->credited = true;
		qexpire(x, now);
		if (!x.q.empty() && accepts(x.q.front().type, t)) x.q.pop_front();
	};

	unsigned nev = (unsigned) dp.range(1, 60);
	unsigned focus = 0;
	for (unsigned e = 0; e < nev && (e < 3 || dp.more()); e++) {
		unsigned kind = dp.weighted({12, 5, 3, 4, 2});
		if (!dp.chance(150)) focus = dp.pick((unsigned) nodes.size());      // histories dwell on one node
		NodeM &x = nodes[focus];
		if (kind == 0) {
			// occupancy report from node x
			unsigned rk = dp.pick(4);
			ref::Bytes d;
			ref::Msg mir;
			mir.addr = x.addr;
			uint8_t type;
			if (rk == 0 || rk == 1) {
				uint8_t mnum = dp.chance(180) ? (uint8_t) dp.pick(12) : dp.spicy();
				d = {mnum};
				if (dp.chance(50)) { d.push_back(dp.u8()); d.push_back(dp.u8()); }       // optional timestamp
				type = rk == 0 ? M::BM_OCC : M::BM_FREE;
				mir.type = rk == 0 ? M::BM_MIRROR_OCC : M::BM_MIRROR_FREE;
				mir.data = {mnum};
			} else if (rk == 2) {
				uint8_t base = (uint8_t) (8 * dp.pick(dp.chance(200) ? 3 : 16));
				uint8_t size = (uint8_t) (8 * dp.range(1, 16));
				d = {base, size};
				for (int i = 0; i < size / 8; i++) d.push_back(dp.spicy());
				type = M::BM_MULTIPLE;
				mir.type = M::BM_MIRROR_MULTIPLE;
				mir.data = d;
			} else {
				d = {dp.spicy(), dp.spicy(), dp.spicy(), dp.spicy(), dp.spicy()};
				type = M::BM_POSITION;
				mir.type = M::BM_MIRROR_POSITION;
				mir.data = d;
			}
			kinds_seen.insert((int) rk);
			ctx.desc << "  t=" << vf_now_us() / 1000 << "ms report from " << an(x.addr) << (x.secack ? " [secack]" : x.configured ? " [no secack]" : " [unknown node]")
			         << " type=" << std::hex << (int) type << std::dec << " data=" << hex(d) << "\n";
			model_rx(x, type);
			bool was_blocked = blocked(x), was_held = x.wire_count < x.subs.size();
			if (x.secack) {
				x.subs.push_back({mir, 0, vf_now_us(), true});
				mirrors_expected++;
				if (was_blocked) ev_blocked_mirror = true;
				else if (was_held) ev_budget_blocked = true;
			}
			n.bus.send_from(x.bus_idx, type, d);
			n.s.settle();
			absorb("after the report was processed, no flush called");
			liveness(x, "after the report was processed");
			Session::drain_messages();
		} else if (kind == 1) {
			int fi = fn_index(REQS[dp.pick(sizeof REQS / sizeof *REQS)]);
			SendCall c = draw_send(dp, true, fi);
			c.addr = x.addr;
			bool inr = false;
			ref::Msg m = expected_msg(c, &inr, nullptr);
			if (!inr) continue;
			Sub sb{m, ref::RESP[m.type & 0x7f].size, vf_now_us(), false};
			ctx.desc << "  t=" << vf_now_us() / 1000 << "ms send " << an(x.addr) << " type=" << std::hex << (int) m.type << std::dec << " resp=" << sb.size << "\n";
			x.subs.push_back(sb);
			qexpire(x, vf_now_us());
			do_send(c);
			bidib_flush();
			absorb("own send");
			liveness(x, "after an own send returned");
		} else if (kind == 2) {
			// the answer to the oldest outstanding request of x (or a spontaneous message)
			qexpire(x, vf_now_us());
			uint8_t t = x.q.empty() ? (uint8_t) M::BM_CV : ref::RESP[x.q.front().type & 0x7f].ans[0];
			if (t == M::BM_MULTIPLE || t == M::BM_OCC || t == M::BM_FREE || t == M::BM_POSITION) continue;   // reports are the other event
			if (t == M::FEATURE && dp.flag()) t = M::FEATURE_NA;
			ref::Bytes d = answer_payload(t);
			ctx.desc << "  t=" << vf_now_us() / 1000 << "ms rx from " << an(x.addr) << " type=" << std::hex << (int) t << std::dec << "\n";
			model_rx(x, t);
			n.bus.send_from(x.bus_idx, t, d);
			n.s.settle();
			absorb("uplink");
			liveness(x, "after an uplink message of the node was processed");
			Session::drain_messages();
			Session::drain_errors();
		} else if (kind == 3) {
			uint8_t st = dp.chance(140) ? 1 : 0;
			ctx.desc << "  t=" << vf_now_us() / 1000 << "ms rx STALL=" << (int) st << " from " << an(x.addr) << "\n";
			x.stalled = st != 0;
			n.bus.send_from(x.bus_idx, M::STALL, {st});
			n.s.settle();
			absorb(st ? "stall" : "unstall");
			if (!st)
				for (auto &y : nodes)
					if (y.addr.size() >= x.addr.size() && std::equal(x.addr.begin(), x.addr.end(), y.addr.begin())) liveness(y, "after the stall was cleared");
		} else {
			uint64_t us = (uint64_t) dp.range(2, 40) * 100000ULL;
			ctx.desc << "  advance " << us / 1000 << "ms\n";
			n.s.advance(us);
			absorb("advance");
		}
	}
	// (E) clear stalls, answer everything; no flush by the harness
	for (int round = 0; round < 300; round++) {
		bool pending = false;
		absorb("final");
		for (auto &x : nodes)
			if (x.stalled) {
				x.stalled = false;
				n.bus.send_from(x.bus_idx, M::STALL, {0});
				n.s.settle();
				absorb("final unstall");
			}
		for (auto &x : nodes) {
			if (x.wire_count < x.subs.size()) pending = true;
			qexpire(x, vf_now_us());
			if (!x.q.empty() || x.wire_count < x.subs.size()) {
				uint8_t t = x.q.empty() ? (uint8_t) M::BM_CV : ref::RESP[x.q.front().type & 0x7f].ans[0];
				if (t == M::BM_MULTIPLE) t = M::BM_FREE;      // a (harmless) accepted answer of BM_GET_RANGE: credited, mirrored below if secack
				ref::Bytes d = answer_payload(t);
				if (t == M::BM_FREE) {
					if (x.secack) {
						ref::Msg mir; mir.addr = x.addr; mir.type = M::BM_MIRROR_FREE; mir.data = {0};
						x.subs.push_back({mir, 0, vf_now_us(), true});
						mirrors_expected++;
					}
				}
				model_rx(x, t);
				n.bus.send_from(x.bus_idx, t, d);
				n.s.settle();
				absorb("final answers");
				liveness(x, "final drain");
				pending = true;
			}
		}
		Session::drain_messages();
		Session::drain_errors();
		if (!pending) break;
	}
	for (auto &x : nodes)
		if (x.wire_count < x.subs.size())
			ctx.fail(std::string(x.subs[x.wire_count].mirror ? "MIRROR-MISSING" : "STRANDED") + ": at the end (no stall, everything answered, no flush called) " +
			         std::to_string(x.subs.size() - x.wire_count) + " message(s) to node " + an(x.addr) + " never reached the wire, first " + ref::show(x.subs[x.wire_count].m));
	n.s.stop();
	std::string anm = lifecycle_anomalies(true);
	if (!anm.empty()) ctx.fail("LIFECYCLE: " + anm);
	ctx.count("mirrors-expected", mirrors_expected);
	if (ev_blocked_mirror) ctx.tag("mirror-while-stalled");
	if (ev_budget_blocked) ctx.tag("mirror-behind-deferred-requests");
	if (kinds_of_setting == 2) ctx.tag("boards-with-and-without-secack");
	for (int k : kinds_seen) ctx.tag(std::string("report-kind-") + (k == 0 ? "occ" : k == 1 ? "free" : k == 2 ? "multiple" : "position"));
	ctx.nontrivial = kinds_of_setting == 2 && kinds_seen.size() >= 3 && mirrors_expected > 0;
	ctx.hash_src = ctx.desc.str();
}

PropReg reg({"C19", prop,
             "non-trivial: configured boards with and without secure acknowledgement are on the bus, >=3 of the 4 report kinds "
             "occur and >=1 mirror is expected; mirrors requested while the node is stalled / behind budget-deferred requests are "
             "tagged separately; distinct = distinct (configuration, tree, history)",
             1500, 0, false});

}  // namespace
