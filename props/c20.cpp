// C20 — Startup applies the config: features to the right boards, then initial values.
//
// Domain: generated configuration (features and initial values on any subset of boards /
// accessories / trains) x node tree containing any subset of the configured boards plus unknown
// nodes x feature answers with the requested or a different value x optional node-table change
// during enumeration; start, then 0..2 additional bidib_send_sys_reset calls.
// Oracle: R-startup over the complete decoded downlink transcript of each start / reset, as
// required / forbidden / order constraints (see the checks below). Enumeration, capacity query,
// occupancy queries and speed-0 / all-off drive messages are tolerated but must target nodes of
// the tree; per-node sequence numbers must be consecutive and restart after the reset (C05).
#include "harness/normal.hpp"
#include "ref/msgs.hpp"
#include <cstring>
#include <algorithm>

using namespace vf;

namespace {

// canonical form used for multiset comparison: CS_DRIVE keeps only the active groups
ref::Bytes canon(const ref::Msg &m) {
	ref::Msg c = m;
	c.seq = 0;
	if (m.type == M::CS_DRIVE && m.data.size() == 9) {
		uint8_t act = m.data[3];
		if (!(act & 1)) c.data[4] = 0;
		c.data[5] = (act & 2) ? (uint8_t) (m.data[5] & 0x1F) : 0;
		uint8_t f2 = 0;
		if (act & 4) f2 |= m.data[6] & 0x0F;
		if (act & 8) f2 |= m.data[6] & 0xF0;
		c.data[6] = f2;
		c.data[7] = (act & 16) ? m.data[7] : 0;
		c.data[8] = (act & 32) ? m.data[8] : 0;
	}
	return ref::encode_msg(c);
}

void check_segment(Ctx &ctx, Normal &n, const std::vector<TxRec> &seg, const char *what) {
	const cfg::Config &c = n.c;
	auto addr_of = [&](const std::string &b) { int i = n.bus.node_of_board(b); return i >= 0 ? n.bus.nodes[(size_t) i].addr : ref::Bytes(); };
	// positions
	long enable_at = -1;
	for (size_t i = 0; i < seg.size(); i++)
		if (seg[i].m.type == M::SYS_ENABLE && enable_at < 0) enable_at = (long) i;
	if (enable_at < 0) ctx.fail(std::string("ORDER: no SYS_ENABLE in the transcript of ") + what);
	// every message targets a node of the tree; configuration-driven kinds target connected configured boards
	for (auto &r : seg) {
		int idx = n.bus.find(r.m.addr);
		if (idx < 0) ctx.fail(std::string("TARGET: ") + what + " addresses " + ref::show(r.m) + " to an address where no node is");
		bool infra = r.m.type == M::SYS_GET_MAGIC || r.m.type == M::SYS_DISABLE || r.m.type == M::SYS_ENABLE || r.m.type == M::SYS_RESET ||
		             r.m.type == M::NODETAB_GETALL || r.m.type == M::NODETAB_GETNEXT || r.m.type == M::GET_PKT_CAPACITY;
		if (!infra && n.bus.nodes[(size_t) idx].board_id.empty())
			ctx.fail(std::string("TARGET: ") + what + " commands " + ref::show(r.m) + " to a node that is not a configured board");
	}
	// (1) features: exactly the configured ones, once each, to the owning connected board, before SYS_ENABLE
	std::vector<ref::Bytes> want_f, got_f;
	for (auto &b : c.boards)
		if (n.connected(b.id))
			for (auto &f : b.features) want_f.push_back(canon({addr_of(b.id), 0, M::FEATURE_SET, {f.number, f.value}}));
	for (size_t i = 0; i < seg.size(); i++)
		if (seg[i].m.type == M::FEATURE_SET) {
			got_f.push_back(canon(seg[i].m));
			if ((long) i > enable_at) ctx.fail(std::string("ORDER: feature setting ") + ref::show(seg[i].m) + " sent after SYS_ENABLE (" + what + ")");
		}
	std::sort(want_f.begin(), want_f.end());
	std::sort(got_f.begin(), got_f.end());
	if (want_f != got_f) {
		std::string d;
		for (auto &x : want_f) d += " want:" + hex(x);
		for (auto &x : got_f) d += " got:" + hex(x);
		ctx.fail(std::string("FEATURES: feature settings sent during ") + what + " differ from the configuration of the connected boards:" + d);
	}
	// (2) every connected track output is switched on (GO) exactly once, after SYS_ENABLE
	long last_go = enable_at;
	for (auto &b : c.boards) {
		if (!b.is_track_output()) continue;
		int cnt = 0;
		for (size_t i = 0; i < seg.size(); i++)
			if (seg[i].m.type == M::CS_SET_STATE && seg[i].m.addr == addr_of(b.id) && n.connected(b.id) && seg[i].m.data == ref::Bytes{0x03}) {
				cnt++;
				if ((long) i < enable_at) ctx.fail(std::string("ORDER: track output ") + b.id + " switched on before SYS_ENABLE (" + what + ")");
				if ((long) i > last_go) last_go = (long) i;
			}
		if (n.connected(b.id) && cnt != 1) ctx.fail(std::string("GO: connected track output ") + b.id + " received " + std::to_string(cnt) + " GO commands during " + what);
	}
	// (3)+(4) initial values: exactly once each, after GO, with the C09 encoding
	std::vector<ref::Bytes> want, got;
	for (auto &b : c.boards) {
		if (!b.in_track || !n.connected(b.id)) continue;
		ref::Bytes a = addr_of(b.id);
		auto board_acc = [&](const std::vector<cfg::BoardAcc> &v) {
			for (auto &x : v)
				if (!x.initial.empty())
					for (auto &as : x.aspects)
						if (as.id == x.initial) want.push_back(canon({a, 0, M::ACCESSORY_SET, {x.number, as.value}}));
		};
		auto dcc_acc = [&](const std::vector<cfg::DccAcc> &v) {
			for (auto &x : v)
				if (!x.initial.empty())
					for (auto &as : x.aspects)
						if (as.id == x.initial)
							for (auto &p : as.ports)
								want.push_back(canon({a, 0, M::CS_ACCESSORY, {x.addrl, x.addrh, (uint8_t) ((p.port & 0x1F) | (p.value << 5) | (x.extended << 7)), 0}}));
		};
		board_acc(b.points_board);
		dcc_acc(b.points_dcc);
		board_acc(b.signals_board);
		dcc_acc(b.signals_dcc);
		for (auto &x : b.peripherals)
			if (!x.initial.empty())
				for (auto &as : x.aspects)
					if (as.id == x.initial) want.push_back(canon({a, 0, M::LC_OUTPUT, {x.port0, x.port1, as.value}}));
	}
	for (auto &ob : c.boards) {
		if (!ob.is_track_output() || !n.connected(ob.id)) continue;
		for (auto &t : c.trains) {
			std::map<int, int> st;
			for (auto &p : t.periphs) {
				if (p.initial < 0) continue;
				if (p.bit >= 5 && p.bit <= 7) continue;        // reserved bits cannot be commanded
				st[p.bit] = p.initial;
				int lo, hi, act, byte;
				if (p.bit < 5) { lo = 0; hi = 4; act = 2; byte = 0; }
				else if (p.bit < 12) { lo = 8; hi = 11; act = 4; byte = 1; }
				else if (p.bit < 16) { lo = 12; hi = 15; act = 8; byte = 1; }
				else if (p.bit < 24) { lo = 16; hi = 23; act = 16; byte = 2; }
				else { lo = 24; hi = 31; act = 32; byte = 3; }
				uint8_t fb = 0;
				for (auto &kv : st)
					if (kv.first >= lo && kv.first <= hi && kv.second) fb |= (uint8_t) (1 << (kv.first % 8));
				ref::Bytes d = {t.addrl, t.addrh, (uint8_t) (t.steps == 28 ? 2 : t.steps == 126 ? 3 : 0), (uint8_t) act, 0, 0, 0, 0, 0};
				d[5 + (size_t) byte] = fb;
				want.push_back(canon({addr_of(ob.id), 0, M::CS_DRIVE, d}));
			}
		}
	}
	for (size_t i = 0; i < seg.size(); i++) {
		const ref::Msg &m = seg[i].m;
		bool init_kind = m.type == M::ACCESSORY_SET || m.type == M::CS_ACCESSORY || m.type == M::LC_OUTPUT ||
		                 (m.type == M::CS_DRIVE && m.data.size() == 9 && (m.data[3] & 0x3E));
		if (!init_kind) continue;
		if ((long) i < last_go) ctx.fail(std::string("ORDER: initial value ") + ref::show(m) + " commanded before the track outputs were switched on (" + what + ")");
		got.push_back(canon(m));
	}
	std::sort(want.begin(), want.end());
	std::sort(got.begin(), got.end());
	if (want != got) {
		std::vector<ref::Bytes> miss, extra;
		std::set_difference(want.begin(), want.end(), got.begin(), got.end(), std::back_inserter(miss));
		std::set_difference(got.begin(), got.end(), want.begin(), want.end(), std::back_inserter(extra));
		std::string d;
		for (auto &x : miss) d += " missing:" + hex(x);
		for (auto &x : extra) d += " unexpected:" + hex(x);
		ctx.fail(std::string("INITIAL-VALUES: commands sent during ") + what + " differ from the configured initial values of connected equipment:" + d);
	}
	// sequence numbers: 0 only before numbering is switched on, then consecutive per node
	std::map<std::string, uint8_t> next;
	bool after_reset = false;
	for (auto &r : seg) {
		std::string k(r.m.addr.begin(), r.m.addr.end());
		if (r.m.type == M::SYS_RESET) { after_reset = true; next.clear(); continue; }
		if (!after_reset) continue;
		uint8_t &e = next[k];
		if (e == 0) e = 1;
		if (r.m.seq != e) ctx.fail(std::string("SEQUENCE: after the reset of ") + what + " node " + hex(r.m.addr) + " got sequence number " + std::to_string(r.m.seq) + ", expected " + std::to_string(e));
		e = e == 255 ? 1 : (uint8_t) (e + 1);
	}
}

void prop(DP &dp, const ref::Bytes &sched, Ctx &ctx) {
	Normal n;
	NormalOpts o;
	o.allow_feature_mismatch = true;
	o.allow_table_change = true;
	o.allow_capacity = true;
	n.prepare(dp, sched, o);
	ctx.desc << "C20 " << n.c.summary() << "\n bus: " << n.bus.describe() << "\n";
	ctx.desc << "--- track ---\n" << n.c.track_yaml() << "--- train ---\n" << n.c.train_yaml();
	int rc = n.start();
	if (rc != 0) ctx.fail("START: valid configuration rejected");
	// messages deferred by the response budget leave once the answers have arrived
	auto drain = [&]() {
		for (int i = 0; i < 50; i++) {
			size_t before = n.bus.tx.size();
			n.s.settle();
			n.s.advance(20000);
			bidib_flush();
			if (n.bus.tx.size() == before && i > 1) break;
		}
	};
	drain();
	if (!n.bus.decode_error.empty()) ctx.fail("FRAMING: " + n.bus.decode_error);
	check_segment(ctx, n, n.bus.tx, "start");
	unsigned resets = dp.weighted({5, 3, 1});
	for (unsigned r = 0; r < resets; r++) {
		n.s.settle();
		size_t mark = n.bus.tx.size();
		bidib_send_sys_reset(0);
		drain();
		if (!n.bus.decode_error.empty()) ctx.fail("FRAMING: " + n.bus.decode_error);
		check_segment(ctx, n, n.bus.since(mark), "system reset");
		ctx.tag("additional-reset");
	}
	n.s.settle();
	n.s.stop();
	std::string an = lifecycle_anomalies(true);
	if (!an.empty()) ctx.fail("LIFECYCLE: " + an);
	size_t conn = 0, kinds = 0;
	for (auto &b : n.c.boards) conn += n.connected(b.id);
	bool k1 = false, k2 = false, k3 = false, k4 = false;
	for (auto &b : n.c.boards) {
		for (auto &x : b.points_board) k1 |= !x.initial.empty();
		for (auto &x : b.points_dcc) k1 |= !x.initial.empty();
		for (auto &x : b.signals_board) k2 |= !x.initial.empty();
		for (auto &x : b.signals_dcc) k2 |= !x.initial.empty();
		for (auto &x : b.peripherals) k3 |= !x.initial.empty();
	}
	for (auto &t : n.c.trains) for (auto &p : t.periphs) k4 |= p.initial >= 0;
	kinds = k1 + k2 + k3 + k4;
	ctx.nontrivial = conn > 0 && conn < n.c.boards.size() && kinds >= 2;
	if (conn > 0 && conn < n.c.boards.size()) ctx.tag("proper-subset-connected");
	if (n.bus.table_change_at >= 0) ctx.tag("table-change-during-enumeration");
	if (n.bus.feature_mismatch) ctx.tag("feature-mismatch");
	ctx.hash_src = ctx.desc.str();
}

PropReg reg({"C20", prop,
             "non-trivial: the connected set is a proper non-empty subset of the configured boards and >=2 kinds of initial values "
             "(points, signals, peripherals, train functions) exist; distinct = distinct (configuration, tree, bus knobs)",
             900, 0, false});

}  // namespace
