// C03 — Per-node response budget never exceeded; deferred messages FIFO, never stranded.
// C04 — Stall: nothing is sent into a stalled subtree; held traffic resumes in order.
//
// Domain: debug-mode session, 1..5 nodes of a generated tree (depth 0..3, ancestor relations),
// generated history of
//    send(node, request)   requests of all response sizes (0, 5 ... 40) drawn from the constructor table
//    rx(node, type)        matching answer / alternative answer / unrelated spontaneous / duplicate
//    advance t             0.2 .. 5 s of virtual time (lost responses -> 2 s expiry)
//    stall(node, 0|1)      C04 only: any node incl. the interface, nested, repeated, unstall w/o stall
// with a harness flush after every event (a minority of sends is left unflushed).
// Oracle: R-flow, a two-sided reference model of the per-node flow control:
//   (F)  wire order to a node == submission order, each message at most once, byte-identical
//   (S)  budget safety: at every wire emission the bytes outstanding under the PERMISSIVE
//        crediting discipline (lower bound of what any conforming host may count) + the new
//        message's worst-case response size <= 48
//   (S4) no message to a node reaches the wire while it or an ancestor is stalled
//   (L)  liveness at library activations (send to N returned / uplink message from N or unstall
//        processed): while N is not stall-blocked and the FIFO-discipline budget (upper bound;
//        heads expired at 1 s resolution, head credited by an accepted answer type) has room
//        for the oldest held message, that message is on the wire
//   (E)  at the end, after all stalls are cleared and everything is answered, every submitted
//        message is on the wire exactly once.
#include "harness/vf.hpp"
#include "harness/sends.hpp"
#include "harness/bidib_cxx.h"
#include "ref/msgs.hpp"
#include "ref/resp.hpp"
#include <cstring>
#include <algorithm>
#include <functional>

using namespace vf;

namespace {

const char *REQ_FNS[] = {
    "bidib_send_sys_ping",          "bidib_send_sys_get_unique_id", "bidib_send_vendor_get",      "bidib_send_lc_configx_get",
    "bidib_send_string_get",        "bidib_send_nodetab_getnext",   "bidib_send_feature_getnext", "bidib_send_bm_get_range",
    "bidib_send_sys_get_error",     "bidib_send_accessory_get",     "bidib_send_boost_query",     "bidib_send_cs_pom",
    "bidib_send_lc_output",         "bidib_send_bm_mirror_occ",     "bidib_send_node_changed_ack", "bidib_send_sys_get_magic",
    "bidib_send_feature_set",       "bidib_send_cs_set_state",      "bidib_send_lc_macro_get",    "bidib_send_accessory_para_get",
    "bidib_send_vendor_set",        "bidib_send_bm_get_confidence", "bidib_send_sys_clock",       "bidib_send_fw_update_op_exit",
};

int fn_index(const char *name) {
	const auto &t = send_table();
	for (size_t i = 0; i < t.size(); i++)
		if (!strcmp(t[i].name, name)) return (int) i;
	return 0;
}

struct Sub {            // a submitted message
	ref::Msg m;
	int size;           // worst-case response size
	uint64_t t_sub;     // virtual time of the call
	bool on_wire = false;
	uint64_t t_wire = 0;
};
struct OutP { uint8_t type; int size; uint64_t t; };
struct Tok { uint8_t type; uint64_t t; };          // an uplink message of the node (a possible answer)
struct OutQ { uint8_t type; int size; uint64_t t; };
struct Node {
	ref::Bytes addr;
	std::vector<Sub> subs;
	size_t wire_count = 0;        // number of subs on the wire (always a prefix)
	std::vector<OutP> p;          // permissive model: every request that reached the wire ...
	std::vector<Tok> toks;        // ... and every uplink message that may have credited one of them
	std::deque<OutQ> q;           // FIFO model
	bool stalled = false;
	uint8_t last_rx = 0;
	bool any_rx = false;
};

bool accepts(uint8_t req, uint8_t ans) {
	const ref::RespInfo &r = ref::RESP[req & 0x7f];
	for (int i = 0; i < r.n - 1 && i < 3; i++)
		if (r.ans[i] == ans) return true;
	return false;
}

uint64_t sec(uint64_t us) { return us / 1000000ULL; }

void flow_prop(DP &dp, const ref::Bytes &sched, Ctx &ctx, bool with_stall) {
	Session s;
	s.world(sched);
	const char *P = with_stall ? "C04" : "C03";
	// node tree: addresses chosen so that ancestor relations occur
	unsigned nn = (unsigned) dp.range(1, 5);
	std::vector<Node> nodes;
	auto has = [&](const ref::Bytes &a) {
		for (auto &n : nodes)
			if (n.addr == a) return true;
		return false;
	};
	for (unsigned i = 0; i < nn; i++) {
		ref::Bytes a;
		unsigned how = dp.weighted({1, 3, 4});    // interface / fresh top-level / child of an existing node
		if (how == 2 && !nodes.empty()) {
			a = nodes[dp.pick((unsigned) nodes.size())].addr;
			if (a.size() < 3) a.push_back((uint8_t) dp.range(1, 4));
			else a = {(uint8_t) dp.range(1, 6)};
		} else if (how == 1) a = {(uint8_t) dp.range(1, 6)};
		int guard = 0;
		while (has(a) && guard++ < 20) {
			if (a.empty()) a = {1};
			else a.back() = (uint8_t) (a.back() % 250 + 1);
		}
		if (has(a)) continue;
		Node n;
		n.addr = a;
		nodes.push_back(n);
	}
	ctx.desc << P << " nodes:";
	for (auto &n : nodes) ctx.desc << " " << (n.addr.empty() ? "0" : hex(n.addr));
	ctx.desc << "\n";
	if (s.start_debug(0) != 0) ctx.fail("START: debug-mode start returned non-zero");

	auto blocked = [&](const Node &n) {
		for (auto &a : nodes)
			if (a.stalled && a.addr.size() <= n.addr.size() && std::equal(a.addr.begin(), a.addr.end(), n.addr.begin())) return true;
		return false;
	};
	// Permissive bound: the requests not yet expired at `now` minus the most valuable set of them that the node's uplink
	// messages so far can have credited under ANY assignment (a message credits at most one request that was submitted
	// before it arrived and accepts its type). Which request an answer credits depends on when the receiver thread gets to
	// it (an older request may expire first when the second rolls over in between), so no particular assignment is
	// demanded. Requests are the elements of a transversal matroid: greedy by size with augmenting paths is optimal.
	auto psum = [&](Node &n, uint64_t now) {
		std::vector<const OutP *> live;
		for (auto &o : n.p)
			if (sec(now) - sec(o.t) < 2) live.push_back(&o);
		std::stable_sort(live.begin(), live.end(), [](const OutP *a, const OutP *b) { return a->size > b->size; });
		std::vector<int> owner(n.toks.size(), -1);
		std::function<bool(int, std::vector<char> &)> aug = [&](int e, std::vector<char> &seen) {
			for (size_t k = 0; k < n.toks.size(); k++) {
				if (seen[k] || n.toks[k].t < live[(size_t) e]->t || !accepts(live[(size_t) e]->type, n.toks[k].type)) continue;
				seen[k] = 1;
				if (owner[k] < 0 || aug(owner[k], seen)) { owner[k] = e; return true; }
			}
			return false;
		};
		int sum = 0;
		for (size_t e = 0; e < live.size(); e++) {
			std::vector<char> seen(n.toks.size(), 0);
			if (!aug((int) e, seen)) sum += live[e]->size;
		}
		return sum;
	};
	auto qexpire = [&](Node &n, uint64_t now) {
		while (!n.q.empty() && sec(now) - sec(n.q.front().t) >= 2) n.q.pop_front();
	};
	auto qsum = [&](Node &n) {
		int sum = 0;
		for (auto &o : n.q) sum += o.size;
		return sum;
	};

	size_t mark = 0;
	bool ev_deferred_released = false, ev_expired = false, ev_alt = false, ev_stall_held = false, ev_nested = false;
	unsigned n_deferred = 0;
	// consumes new wire bytes, checks (F), (S), (S4)
	auto absorb = [&](const char *when) {
		if (s.down.size() == mark) return;
		ref::Bytes delta = s.since(mark);
		mark = s.down.size();
		ref::StreamDecode d = ref::decode_strict(delta);
		if (!d.error.empty()) ctx.fail(std::string("FRAMING: ") + d.error);
		uint64_t now = vf_now_us();
		for (auto &pk : d.packets)
			for (auto &m : pk.msgs) {
				Node *n = nullptr;
				for (auto &x : nodes)
					if (x.addr == m.addr) n = &x;
				if (!n) ctx.fail("UNEXPECTED: message to a node nobody sent to: " + ref::show(m));
				if (n->wire_count >= n->subs.size()) ctx.fail("DUPLICATE: more messages on the wire to node " + hex(n->addr) + " than were submitted: " + ref::show(m));
				Sub &sb = n->subs[n->wire_count];
				if (!sb.m.same_but_seq(m))
					ctx.fail("FIFO: wire message to node " + hex(n->addr) + " is " + ref::show(m) + " but the next submitted message is " + ref::show(sb.m) + " (" + when + ")");
				if (with_stall && blocked(*n))
					ctx.fail("STALL-SAFETY: message " + ref::show(m) + " reached the wire while node " + hex(n->addr) + " or an ancestor is stalled (" + when + ")");
				int ps = psum(*n, now);
				if (ps + sb.size > 48)
					ctx.fail("BUDGET-SAFETY: sending " + ref::show(m) + " (response " + std::to_string(sb.size) + ") while " + std::to_string(ps) +
					         " response bytes are outstanding at node " + hex(n->addr) + " even under the most permissive crediting (" + when + ")");
				sb.on_wire = true;
				sb.t_wire = now;
				if (n->wire_count > 0 || true) {
					// released later than its own call? then it had been deferred
					if (now > sb.t_sub || std::string(when) != "send") { ev_deferred_released = true; }
				}
				n->wire_count++;
				if (sb.size > 0) {
					n->p.push_back({sb.m.type, sb.size, sb.t_sub});
					n->q.push_back({sb.m.type, sb.size, now});
				}
			}
	};
	// (L) for node n at an activation instant (after flush)
	// The FIFO model expires stale heads only at activations, evaluated at the EARLIEST
	// instant the library can have run (call time / injection time): the library expires
	// lazily, so expiring later here would make the model drop entries the library still
	// (legitimately) counts and raise false alarms.
	auto liveness = [&](Node &n, const char *when) {
		uint64_t now = vf_now_us();
		if (with_stall && blocked(n)) return;
		// simulate the obligatory releases on a copy of the FIFO model
		int sum = qsum(n);
		size_t must = n.wire_count;
		// messages already on the wire are in q; walk the held ones
		while (must < n.subs.size()) {
			const Sub &h = n.subs[must];
			if (sum + h.size > 48) break;
			sum += h.size;
			must++;
		}
		if (must > n.wire_count) {
			const Sub &h = n.subs[n.wire_count];
			ctx.fail(std::string(with_stall ? "STALL-LIVENESS" : "STRANDED") + ": node " + hex(n.addr) + " is not stalled and its budget has room (" +
			         std::to_string(qsum(n)) + " bytes outstanding under FIFO crediting, oldest held message needs " + std::to_string(h.size) +
			         ") but " + ref::show(h.m) + " submitted at " + std::to_string(h.t_sub / 1000) + " ms is still held back at " +
			         std::to_string(now / 1000) + " ms (" + when + ")");
		}
	};

	unsigned nev = (unsigned) dp.range(1, 80);
	for (unsigned e = 0; e < nev && (e < 3 || dp.more()); e++) {
		unsigned kind = dp.weighted({10, 7, 2, with_stall ? 4u : 0u});
		Node &n = nodes[dp.pick((unsigned) nodes.size())];
		if (kind == 0) {
			// mostly the short list of requests that exercise the budget well; now and then any of the constructors, so that every
			// row of the response table is compared with the reference copy sooner or later
			int fi = dp.chance(80) ? (int) dp.pick((unsigned) send_table().size()) : fn_index(REQ_FNS[dp.pick(sizeof REQ_FNS / sizeof *REQ_FNS)]);
			SendCall c = draw_send(dp, true, fi);
			c.addr = n.addr;
			bool inr = false;
			ref::Msg m = expected_msg(c, &inr, nullptr);
			const char *fname = send_table()[(size_t) fi].name;
			if (!inr || !strcmp(fname, "bidib_send_sys_enable") || !strcmp(fname, "bidib_send_sys_disable")) continue;          // out of range, or no node parameter (always the interface)
			Sub sb;
			sb.m = m;
			sb.size = ref::RESP[m.type & 0x7f].size;
			sb.t_sub = vf_now_us();
			bool flush = !dp.chance(24);
			ctx.desc << "  t=" << vf_now_us() / 1000 << "ms send " << (n.addr.empty() ? "0" : hex(n.addr)) << " type=" << std::hex << (int) m.type << std::dec
			         << " resp=" << sb.size << (flush ? "" : " (no flush)") << "\n";
			size_t before = n.wire_count;
			n.subs.push_back(sb);
			qexpire(n, vf_now_us());
			do_send(c);
			if (flush) {
				bidib_flush();
				absorb("send");
				if (n.wire_count == before && n.subs.size() > n.wire_count) n_deferred++;
				liveness(n, "after send returned");
			}
		} else if (kind == 1) {
			// uplink message from node n. An answer cannot precede its request on the wire, so
			// whatever is admitted but still buffered is flushed first.
			bidib_flush();
			absorb("pre-rx flush");
			uint8_t t;
			const char *what;
			unsigned how = dp.weighted({8, 3, 2, 2});
			// the oldest request on the wire, by the FIFO model
			{
				size_t qb0 = n.q.size();
				qexpire(n, vf_now_us());
				if (n.q.size() < qb0) ev_expired = true;
			}
			if (how <= 1 && !n.q.empty()) {
				const ref::RespInfo &r = ref::RESP[n.q.front().type & 0x7f];
				if (how == 1 && r.n > 2) { t = r.ans[1 + dp.pick((unsigned) r.n - 2)]; what = "alternative answer"; ev_alt = true; }
				else { t = r.ans[0]; what = "matching answer"; }
			} else if (how == 3 && n.any_rx) { t = n.last_rx; what = "duplicate"; }
			else {
				static const uint8_t spont[] = {M::BM_OCC, M::BM_CV, M::ACCESSORY_NOTIFY, M::SYS_ERROR, M::BM_SPEED, M::LC_KEY, M::BOOST_DIAGNOSTIC};
				t = spont[dp.pick(sizeof spont)];
				what = "spontaneous";
			}
			if (t == M::STALL) continue;
			ref::Msg m;
			m.addr = n.addr;
			m.type = t;
			m.seq = dp.chance(40) ? (uint8_t) 0 : s.next_up_seq(n.addr);
			m.data = dp.bytes((size_t) dp.range(1, 6));
			ctx.desc << "  t=" << vf_now_us() / 1000 << "ms rx from " << (n.addr.empty() ? "0" : hex(n.addr)) << " type=" << std::hex << (int) t << std::dec << " (" << what << ")\n";
			// reference models
			uint64_t now = vf_now_us();
			n.toks.push_back({t, now});          // permissive model: may credit any one request submitted before now
			{   // FIFO: expire stale heads, then the head is credited if it accepts t
				size_t qb = n.q.size();
				qexpire(n, now);
				if (n.q.size() < qb) ev_expired = true;
				if (!n.q.empty() && accepts(n.q.front().type, t)) n.q.pop_front();
			}
			n.last_rx = t;
			n.any_rx = true;
			s.inject_packet({m});
			s.settle();
			bidib_flush();
			absorb("uplink");
			liveness(n, "after an uplink message from the node was processed");
			Session::drain_messages();
		} else if (kind == 2) {
			uint64_t us = (uint64_t) dp.range(2, 50) * 100000ULL;
			ctx.desc << "  advance " << us / 1000 << "ms\n";
			s.advance(us);
			bidib_flush();
			absorb("advance");
		} else {
			uint8_t st = dp.chance(140) ? 1 : 0;
			ctx.desc << "  t=" << vf_now_us() / 1000 << "ms rx STALL=" << (int) st << " from " << (n.addr.empty() ? "0" : hex(n.addr)) << "\n";
			bidib_flush();                 // nothing admitted-but-unflushed when a stall starts
			absorb("pre-stall flush");
			ref::Msg m;
			m.addr = n.addr;
			m.type = M::STALL;
			// sequence number 0 = "not numbered" is legal for any uplink message
			m.seq = dp.chance(70) ? (uint8_t) 0 : s.next_up_seq(n.addr);
			m.data = {st};
			if (st) {
				for (auto &x : nodes)
					if (&x != &n && x.stalled && (blocked(n) || (x.addr.size() > n.addr.size() && std::equal(n.addr.begin(), n.addr.end(), x.addr.begin())))) ev_nested = true;
			}
			n.stalled = st != 0;
			// a STALL notice is an uplink message of that node: the FIFO model expires stale heads
			s.inject_packet({m});
			s.settle();
			bidib_flush();
			absorb(st ? "stall" : "unstall");
			if (!st) {
				for (auto &x : nodes)
					if (x.addr.size() >= n.addr.size() && std::equal(n.addr.begin(), n.addr.end(), x.addr.begin())) {
						// held because of a stall?
						if (x.wire_count < x.subs.size()) ev_stall_held = true;
						// expiry is evaluated lazily by the library (on uplink traffic of that node or
						// a send to it), so only the stall part is an obligation here: use the
						// un-expired FIFO model
						uint64_t now = vf_now_us();
						(void) now;
						if (with_stall && !blocked(x)) {
							int sum = qsum(x);
							size_t must = x.wire_count;
							while (must < x.subs.size() && sum + x.subs[must].size <= 48) { sum += x.subs[must].size; must++; }
							if (must > x.wire_count)
								ctx.fail("STALL-LIVENESS: stall cleared for " + hex(n.addr) + ", node " + hex(x.addr) + " has no stalled ancestor and room in its budget (" +
								         std::to_string(qsum(x)) + " outstanding) but " + ref::show(x.subs[x.wire_count].m) + " is still held back");
						}
					}
			}
		}
	}
	// (E) clear all stalls, answer everything, then every submitted message must be out exactly once
	for (int round = 0; round < 400; round++) {
		bool pending = false;
		bidib_flush();
		absorb("final flush");
		for (auto &n : nodes) {
			if (n.stalled) {
				bidib_flush();
				absorb("final");
				ref::Msg m;
				m.addr = n.addr; m.type = M::STALL; m.seq = s.next_up_seq(n.addr); m.data = {0};
				n.stalled = false;
				s.inject_packet({m});
				s.settle();
				bidib_flush();
				absorb("final unstall");
			}
		}
		for (auto &n : nodes) {
			if (n.wire_count < n.subs.size()) pending = true;
			qexpire(n, vf_now_us());
			if (!n.q.empty()) {
				uint8_t t = ref::RESP[n.q.front().type & 0x7f].ans[0];
				n.toks.push_back({t, vf_now_us()});
				n.q.pop_front();
				ref::Msg m;
				m.addr = n.addr; m.type = t; m.seq = s.next_up_seq(n.addr); m.data = {0, 0, 0};
				s.inject_packet({m});
				s.settle();
				bidib_flush();
				absorb("final answers");
				liveness(n, "final drain");
				pending = true;
			} else if (n.wire_count < n.subs.size()) {
				// nothing outstanding (all answered or expired) but messages still held: give the
				// library an activation for this node (it has no timer of its own)
				ref::Msg m;
				m.addr = n.addr; m.type = M::BM_CV; m.seq = s.next_up_seq(n.addr); m.data = {0, 0, 0, 0, 0};
				s.inject_packet({m});
				s.settle();
				bidib_flush();
				absorb("final activation");
				liveness(n, "final activation by a spontaneous uplink message");
			}
		}
		Session::drain_messages();
		if (!pending) break;
	}
	for (auto &n : nodes)
		if (n.wire_count < n.subs.size())
			ctx.fail(std::string(with_stall ? "STALL-LIVENESS" : "STRANDED") + ": at the end (no stall, everything answered) " + std::to_string(n.subs.size() - n.wire_count) +
			         " message(s) to node " + hex(n.addr) + " never reached the wire, first " + ref::show(n.subs[n.wire_count].m));
	s.stop();
	std::string an = lifecycle_anomalies(true);
	if (!an.empty()) ctx.fail("LIFECYCLE: " + an);
	if (n_deferred) ctx.tag("deferred-then-released");
	if (ev_expired) ctx.tag("request-expired");
	if (ev_alt) ctx.tag("alternative-answer");
	if (ev_stall_held) ctx.tag("held-by-stall-then-released");
	if (ev_nested) ctx.tag("nested-stalls");
	ctx.count("deferred", n_deferred);
	(void) ev_deferred_released;
	ctx.nontrivial = with_stall ? ev_stall_held : (n_deferred > 0 || ev_expired || ev_alt);
	ctx.hash_src = ctx.desc.str();
}

void prop3(DP &dp, const ref::Bytes &sched, Ctx &ctx) { flow_prop(dp, sched, ctx, false); }
void prop4(DP &dp, const ref::Bytes &sched, Ctx &ctx) { flow_prop(dp, sched, ctx, true); }

PropReg reg3({"C03", prop3,
              "non-trivial: the history deferred >=1 message that was later released, or >=1 request expired, or an alternative "
              "answer credited a request; distinct = distinct event histories",
              900, 0, false});
PropReg reg4({"C04", prop4,
              "non-trivial: >=1 message was held because of a stall and later released; nested (overlapping ancestor/descendant) "
              "stalls tagged separately; distinct = distinct event histories",
              900, 0, false});

}  // namespace
