// Field-by-field visitors for every query result type of the public getter API, and a table of all
// getters. A visitor sees every FIELD (never padding) of a result, the strings and arrays it points
// to included. Two visitors exist: Render (canonical text: deep-copy / snapshot-equality oracles) and
// Defined (Valgrind Memcheck client requests: "contains no uninitialised field").
#pragma once
#include "harness/bidib_cxx.h"
#include "harness/config.hpp"
#include <string>
#include <vector>
#include <sstream>
#include <functional>
#include <memory>
#include <cstring>
#if __has_include(<valgrind/memcheck.h>)
#include <valgrind/memcheck.h>
#define VF_HAVE_VALGRIND 1
#else
#define RUNNING_ON_VALGRIND 0
#endif

namespace vf {
namespace gq {

struct Visitor {
	std::string prefix;
	virtual ~Visitor() {}
	virtual void scalar(const char *name, const void *p, size_t n) = 0;
	// pp: address of the pointer field; the string it points to is visited too
	virtual void str(const char *name, char *const *pp) = 0;
	struct Scope {
		Visitor &v; std::string saved;
		Scope(Visitor &vv, const std::string &s) : v(vv), saved(vv.prefix) { v.prefix += s; }
		~Scope() { v.prefix = saved; }
	};
};
#define F(v, obj, field) (v).scalar(#field, &(obj).field, sizeof((obj).field))

struct Render : Visitor {
	std::ostringstream o;
	void scalar(const char *name, const void *p, size_t n) override {
		unsigned long long x = 0;
		memcpy(&x, p, n > 8 ? 8 : n);
		o << prefix << name << "=" << x << " ";
	}
	void str(const char *name, char *const *pp) override { o << prefix << name << "=" << (*pp ? *pp : "(null)") << " "; }
};

struct Defined : Visitor {
	std::vector<std::string> undefined;
	void scalar(const char *name, const void *p, size_t n) override {
#ifdef VF_HAVE_VALGRIND
		if (VALGRIND_CHECK_MEM_IS_DEFINED(p, n)) undefined.push_back(prefix + name);
#else
		(void) name; (void) p; (void) n;
#endif
	}
	void str(const char *name, char *const *pp) override {
#ifdef VF_HAVE_VALGRIND
		if (VALGRIND_CHECK_MEM_IS_DEFINED(pp, sizeof *pp)) { undefined.push_back(prefix + name + " (pointer)"); return; }
		if (*pp && VALGRIND_CHECK_MEM_IS_DEFINED(*pp, strlen(*pp) + 1)) undefined.push_back(prefix + name + " (characters)");
#else
		(void) name; (void) pp;
#endif
	}
};

// ---- per type
static inline void visit(Visitor &v, const t_bidib_board_accessory_state_data &d) {
	v.str("state_id", &d.state_id); F(v, d, state_value); F(v, d, execution_state); F(v, d, wait_details);
}
static inline void visit(Visitor &v, const t_bidib_dcc_accessory_state_data &d) {
	v.str("state_id", &d.state_id); F(v, d, state_value); F(v, d, coil_on); F(v, d, output_controls_timing); F(v, d, ack); F(v, d, time_unit); F(v, d, switch_time);
}
static inline void visit(Visitor &v, const t_bidib_peripheral_state_data &d) { v.str("state_id", &d.state_id); F(v, d, state_value); F(v, d, time_unit); F(v, d, wait); }
static inline void visit(Visitor &v, const t_bidib_reverser_state_data &d) { v.str("state_id", &d.state_id); F(v, d, state_value); }
static inline void visit(Visitor &v, const t_bidib_dcc_address &d) { F(v, d, addrl); F(v, d, addrh); F(v, d, type); }
static inline void visit(Visitor &v, const t_bidib_power_consumption &d, bool strict) {
	F(v, d, known); F(v, d, overcurrent);
	// "current ... only meaningful if known == true and overcurrent == false" (header): still a field of the result
	if (strict || (d.known && !d.overcurrent)) F(v, d, current);
}
static inline void visit(Visitor &v, const t_bidib_segment_state_data &d, bool strict) {
	F(v, d, occupied); F(v, d.confidence, conf_void); F(v, d.confidence, freeze); F(v, d.confidence, nosignal);
	{ Visitor::Scope s(v, "power."); visit(v, d.power_consumption, strict); }
	F(v, d, dcc_address_cnt);
	v.scalar("dcc_addresses(pointer)", &d.dcc_addresses, 0);
	for (size_t i = 0; i < d.dcc_address_cnt; i++) { Visitor::Scope s(v, "addr[" + std::to_string(i) + "]."); visit(v, d.dcc_addresses[i]); }
}
static inline void visit(Visitor &v, const t_bidib_train_decoder_state &k, bool strict) {
	F(v, k, signal_quality_known); if (strict || k.signal_quality_known) F(v, k, signal_quality);
	F(v, k, temp_known); if (strict || k.temp_known) F(v, k, temp_celsius);
	F(v, k, energy_storage_known); if (strict || k.energy_storage_known) F(v, k, energy_storage);
	F(v, k, container2_storage_known); if (strict || k.container2_storage_known) F(v, k, container2_storage);
	F(v, k, container3_storage_known); if (strict || k.container3_storage_known) F(v, k, container3_storage);
}
static inline void visit(Visitor &v, const t_bidib_train_state_data &d, bool strict) {
	F(v, d, on_track); if (strict || d.on_track) F(v, d, orientation);
	F(v, d, set_speed_step); F(v, d, set_is_forwards); F(v, d, ack); F(v, d, detected_kmh_speed); F(v, d, peripheral_cnt);
	for (size_t i = 0; i < d.peripheral_cnt; i++) { Visitor::Scope s(v, "fn[" + std::to_string(i) + "]."); v.str("id", &d.peripherals[i].id); F(v, d.peripherals[i], state); }
	{ Visitor::Scope s(v, "decoder."); visit(v, d.decoder_state, strict); }
}
static inline void visit(Visitor &v, const t_bidib_booster_state_data &d, bool strict) {
	F(v, d, power_state); F(v, d, power_state_simple);
	{ Visitor::Scope s(v, "power."); visit(v, d.power_consumption, strict); }
	F(v, d, voltage_known); if (strict || d.voltage_known) F(v, d, voltage);
	F(v, d, temp_known); if (strict || d.temp_known) F(v, d, temp_celsius);
}
static inline void visit(Visitor &v, const t_bidib_id_list_query &q) {
	F(v, q, length);
	for (size_t i = 0; i < q.length; i++) v.str(("ids[" + std::to_string(i) + "]").c_str(), &q.ids[i]);
}

// ---- the getter table. A call returns an opaque handle with: visit(strict), free().
struct Result {
	std::function<void(Visitor &, bool strict)> visit;
	std::function<void()> free_;
};
enum ArgKind { A_NONE, A_POINT, A_SIGNAL, A_PERIPHERAL, A_SEGMENT, A_REVERSER, A_BOARD, A_BOOSTER, A_OUTPUT, A_TRAIN, A_TRAIN_PERIPH, A_UID, A_NODEADDR, A_DCCADDR };
struct Getter {
	const char *name;
	ArgKind arg;
	// id: C string or nullptr; id2: second string (train peripheral); raw: 7 uid bytes / 3 address bytes / 2 dcc bytes
	std::function<Result(const char *id, const char *id2, const uint8_t *raw)> call;
};

template <class Q> static Result by_value(Q q, std::function<void(Visitor &, const Q &, bool)> vis, std::function<void(Q)> fr) {
	auto box = std::make_shared<Q>(q);
	Result r;
	r.visit = [box, vis](Visitor &v, bool strict) { vis(v, *box, strict); };
	r.free_ = [box, fr]() { if (fr) fr(*box); };
	return r;
}
static inline Result id_list(t_bidib_id_list_query q) {
	return by_value<t_bidib_id_list_query>(q, [](Visitor &v, const t_bidib_id_list_query &x, bool) { visit(v, x); }, [](t_bidib_id_list_query x) { bidib_free_id_list_query(x); });
}
static inline Result unified(t_bidib_unified_accessory_state_query q) {
	return by_value<t_bidib_unified_accessory_state_query>(q, [](Visitor &v, const t_bidib_unified_accessory_state_query &x, bool) {
		F(v, x, known); F(v, x, type);
		if (x.type == BIDIB_ACCESSORY_DCC) visit(v, x.dcc_accessory_state); else visit(v, x.board_accessory_state);
	}, [](t_bidib_unified_accessory_state_query x) { bidib_free_unified_accessory_state_query(x); });
}

static inline const std::vector<Getter> &getters() {
	static std::vector<Getter> t = {
	    {"bidib_get_state", A_NONE, [](const char *, const char *, const uint8_t *) {
		     return by_value<t_bidib_track_state>(bidib_get_state(), [](Visitor &v, const t_bidib_track_state &s, bool strict) {
			     F(v, s, points_board_count);
			     for (size_t i = 0; i < s.points_board_count; i++) { Visitor::Scope sc(v, "point[" + std::to_string(i) + "]."); v.str("id", &s.points_board[i].id); visit(v, s.points_board[i].data); }
			     F(v, s, points_dcc_count);
			     for (size_t i = 0; i < s.points_dcc_count; i++) { Visitor::Scope sc(v, "dccpoint[" + std::to_string(i) + "]."); v.str("id", &s.points_dcc[i].id); visit(v, s.points_dcc[i].data); }
			     F(v, s, signals_board_count);
			     for (size_t i = 0; i < s.signals_board_count; i++) { Visitor::Scope sc(v, "signal[" + std::to_string(i) + "]."); v.str("id", &s.signals_board[i].id); visit(v, s.signals_board[i].data); }
			     F(v, s, signals_dcc_count);
			     for (size_t i = 0; i < s.signals_dcc_count; i++) { Visitor::Scope sc(v, "dccsignal[" + std::to_string(i) + "]."); v.str("id", &s.signals_dcc[i].id); visit(v, s.signals_dcc[i].data); }
			     F(v, s, peripherals_count);
			     for (size_t i = 0; i < s.peripherals_count; i++) { Visitor::Scope sc(v, "peripheral[" + std::to_string(i) + "]."); v.str("id", &s.peripherals[i].id); visit(v, s.peripherals[i].data); }
			     F(v, s, segments_count);
			     for (size_t i = 0; i < s.segments_count; i++) { Visitor::Scope sc(v, "segment[" + std::to_string(i) + "]."); v.str("id", &s.segments[i].id); visit(v, s.segments[i].data, strict); }
			     F(v, s, reversers_count);
			     for (size_t i = 0; i < s.reversers_count; i++) { Visitor::Scope sc(v, "reverser[" + std::to_string(i) + "]."); v.str("id", &s.reversers[i].id); visit(v, s.reversers[i].data); }
			     F(v, s, trains_count);
			     for (size_t i = 0; i < s.trains_count; i++) { Visitor::Scope sc(v, "train[" + std::to_string(i) + "]."); v.str("id", &s.trains[i].id); visit(v, s.trains[i].data, strict); }
			     F(v, s, booster_count);
			     for (size_t i = 0; i < s.booster_count; i++) { Visitor::Scope sc(v, "booster[" + std::to_string(i) + "]."); v.str("id", &s.booster[i].id); visit(v, s.booster[i].data, strict); }
			     F(v, s, track_outputs_count);
			     for (size_t i = 0; i < s.track_outputs_count; i++) { Visitor::Scope sc(v, "output[" + std::to_string(i) + "]."); v.str("id", &s.track_outputs[i].id); F(v, s.track_outputs[i], cs_state); }
		     }, [](t_bidib_track_state s) { bidib_free_track_state(s); });
	     }},
	    // positions within the arrays of bidib_get_state() ((size_t) -1 = not found)
	    {"bidib_get_point_state_index", A_POINT, [](const char *id, const char *, const uint8_t *) {
		     return by_value<size_t>(bidib_get_point_state_index(id), [](Visitor &v, const size_t &x, bool) { v.scalar("index", &x, sizeof x); }, nullptr); }},
	    {"bidib_get_signal_state_index", A_SIGNAL, [](const char *id, const char *, const uint8_t *) {
		     return by_value<size_t>(bidib_get_signal_state_index(id), [](Visitor &v, const size_t &x, bool) { v.scalar("index", &x, sizeof x); }, nullptr); }},
	    {"bidib_get_segment_state_index", A_SEGMENT, [](const char *id, const char *, const uint8_t *) {
		     return by_value<size_t>(bidib_get_segment_state_index(id), [](Visitor &v, const size_t &x, bool) { v.scalar("index", &x, sizeof x); }, nullptr); }},
	    {"bidib_get_point_state", A_POINT, [](const char *id, const char *, const uint8_t *) { return unified(bidib_get_point_state(id)); }},
	    {"bidib_get_signal_state", A_SIGNAL, [](const char *id, const char *, const uint8_t *) { return unified(bidib_get_signal_state(id)); }},
	    {"bidib_get_peripheral_state", A_PERIPHERAL, [](const char *id, const char *, const uint8_t *) {
		     return by_value<t_bidib_peripheral_state_query>(bidib_get_peripheral_state(id), [](Visitor &v, const t_bidib_peripheral_state_query &q, bool) { F(v, q, available); visit(v, q.data); },
		                                                     [](t_bidib_peripheral_state_query q) { bidib_free_peripheral_state_query(q); });
	     }},
	    {"bidib_get_segment_state", A_SEGMENT, [](const char *id, const char *, const uint8_t *) {
		     return by_value<t_bidib_segment_state_query>(bidib_get_segment_state(id), [](Visitor &v, const t_bidib_segment_state_query &q, bool strict) { F(v, q, known); visit(v, q.data, strict); },
		                                                  [](t_bidib_segment_state_query q) { bidib_free_segment_state_query(q); });
	     }},
	    {"bidib_get_reverser_state", A_REVERSER, [](const char *id, const char *, const uint8_t *) {
		     return by_value<t_bidib_reverser_state_query>(bidib_get_reverser_state(id), [](Visitor &v, const t_bidib_reverser_state_query &q, bool) { F(v, q, available); visit(v, q.data); },
		                                                   [](t_bidib_reverser_state_query q) { bidib_free_reverser_state_query(q); });
	     }},
	    {"bidib_get_booster_state", A_BOOSTER, [](const char *id, const char *, const uint8_t *) {
		     return by_value<t_bidib_booster_state_query>(bidib_get_booster_state(id), [](Visitor &v, const t_bidib_booster_state_query &q, bool strict) { F(v, q, known); visit(v, q.data, strict); }, nullptr);
	     }},
	    {"bidib_get_track_output_state", A_OUTPUT, [](const char *id, const char *, const uint8_t *) {
		     return by_value<t_bidib_track_output_state_query>(bidib_get_track_output_state(id), [](Visitor &v, const t_bidib_track_output_state_query &q, bool) { F(v, q, known); F(v, q, cs_state); }, nullptr);
	     }},
	    {"bidib_get_train_state", A_TRAIN, [](const char *id, const char *, const uint8_t *) {
		     return by_value<t_bidib_train_state_query>(bidib_get_train_state(id), [](Visitor &v, const t_bidib_train_state_query &q, bool strict) { F(v, q, known); visit(v, q.data, strict); },
		                                                [](t_bidib_train_state_query q) { bidib_free_train_state_query(q); });
	     }},
	    {"bidib_get_train_peripheral_state", A_TRAIN_PERIPH, [](const char *id, const char *id2, const uint8_t *) {
		     return by_value<t_bidib_train_peripheral_state_query>(bidib_get_train_peripheral_state(id, id2), [](Visitor &v, const t_bidib_train_peripheral_state_query &q, bool) { F(v, q, available); F(v, q, state); }, nullptr);
	     }},
	    {"bidib_get_train_position", A_TRAIN, [](const char *id, const char *, const uint8_t *) {
		     return by_value<t_bidib_train_position_query>(bidib_get_train_position(id), [](Visitor &v, const t_bidib_train_position_query &q, bool) {
			     F(v, q, length); F(v, q, orientation_is_left);
			     for (size_t i = 0; i < q.length; i++) v.str(("segments[" + std::to_string(i) + "]").c_str(), &q.segments[i]);
		     }, [](t_bidib_train_position_query q) { bidib_free_train_position_query(q); });
	     }},
	    {"bidib_get_train_speed_step", A_TRAIN, [](const char *id, const char *, const uint8_t *) {
		     return by_value<t_bidib_train_speed_step_query>(bidib_get_train_speed_step(id), [](Visitor &v, const t_bidib_train_speed_step_query &q, bool) { F(v, q, known_and_avail); F(v, q, speed_step); F(v, q, is_forwards); }, nullptr);
	     }},
	    {"bidib_get_train_speed_kmh", A_TRAIN, [](const char *id, const char *, const uint8_t *) {
		     return by_value<t_bidib_train_speed_kmh_query>(bidib_get_train_speed_kmh(id), [](Visitor &v, const t_bidib_train_speed_kmh_query &q, bool) { F(v, q, known_and_avail); F(v, q, speed_kmh); }, nullptr);
	     }},
	    {"bidib_get_train_dcc_addr", A_TRAIN, [](const char *id, const char *, const uint8_t *) {
		     return by_value<t_bidib_dcc_address_query>(bidib_get_train_dcc_addr(id), [](Visitor &v, const t_bidib_dcc_address_query &q, bool) { F(v, q, known); visit(v, q.dcc_address); }, nullptr);
	     }},
	    {"bidib_get_train_id", A_DCCADDR, [](const char *, const char *, const uint8_t *raw) {
		     t_bidib_dcc_address a = {raw[0], raw[1], 0};
		     return by_value<t_bidib_id_query>(bidib_get_train_id(a), [](Visitor &v, const t_bidib_id_query &q, bool) { F(v, q, known); v.str("id", &q.id); }, [](t_bidib_id_query q) { bidib_free_id_query(q); });
	     }},
	    {"bidib_get_board_id", A_UID, [](const char *, const char *, const uint8_t *raw) {
		     t_bidib_unique_id_mod u = {raw[0], raw[1], raw[2], raw[3], raw[4], raw[5], raw[6]};
		     return by_value<t_bidib_id_query>(bidib_get_board_id(u), [](Visitor &v, const t_bidib_id_query &q, bool) { F(v, q, known); v.str("id", &q.id); }, [](t_bidib_id_query q) { bidib_free_id_query(q); });
	     }},
	    {"bidib_get_uniqueid", A_BOARD, [](const char *id, const char *, const uint8_t *) {
		     return by_value<t_bidib_unique_id_query>(bidib_get_uniqueid(id), [](Visitor &v, const t_bidib_unique_id_query &q, bool) {
			     F(v, q, known); F(v, q.unique_id, class_id); F(v, q.unique_id, class_id_ext); F(v, q.unique_id, vendor_id); F(v, q.unique_id, product_id1); F(v, q.unique_id, product_id2); F(v, q.unique_id, product_id3); F(v, q.unique_id, product_id4);
		     }, nullptr);
	     }},
	    {"bidib_get_uniqueid_by_nodeaddr", A_NODEADDR, [](const char *, const char *, const uint8_t *raw) {
		     t_bidib_node_address a = {raw[0], raw[1], raw[2]};
		     return by_value<t_bidib_unique_id_query>(bidib_get_uniqueid_by_nodeaddr(a), [](Visitor &v, const t_bidib_unique_id_query &q, bool) {
			     F(v, q, known); F(v, q.unique_id, class_id); F(v, q.unique_id, class_id_ext); F(v, q.unique_id, vendor_id); F(v, q.unique_id, product_id1); F(v, q.unique_id, product_id2); F(v, q.unique_id, product_id3); F(v, q.unique_id, product_id4);
		     }, nullptr);
	     }},
	    {"bidib_get_nodeaddr", A_BOARD, [](const char *id, const char *, const uint8_t *) {
		     return by_value<t_bidib_node_address_query>(bidib_get_nodeaddr(id), [](Visitor &v, const t_bidib_node_address_query &q, bool) { F(v, q, known_and_connected); F(v, q.address, top); F(v, q.address, sub); F(v, q.address, subsub); }, nullptr);
	     }},
	    {"bidib_get_nodeaddr_by_uniqueid", A_UID, [](const char *, const char *, const uint8_t *raw) {
		     t_bidib_unique_id_mod u = {raw[0], raw[1], raw[2], raw[3], raw[4], raw[5], raw[6]};
		     return by_value<t_bidib_node_address_query>(bidib_get_nodeaddr_by_uniqueid(u), [](Visitor &v, const t_bidib_node_address_query &q, bool) { F(v, q, known_and_connected); F(v, q.address, top); F(v, q.address, sub); F(v, q.address, subsub); }, nullptr);
	     }},
	    {"bidib_get_board_features", A_BOARD, [](const char *id, const char *, const uint8_t *) {
		     return by_value<t_bidib_board_features_query>(bidib_get_board_features(id), [](Visitor &v, const t_bidib_board_features_query &q, bool) {
			     F(v, q, length);
			     for (size_t i = 0; i < q.length; i++) { Visitor::Scope s(v, "feature[" + std::to_string(i) + "]."); F(v, q.features[i], number); F(v, q.features[i], value); }
		     }, [](t_bidib_board_features_query q) { bidib_free_board_features_query(q); });
	     }},
#define IDL0(fn) {#fn, A_NONE, [](const char *, const char *, const uint8_t *) { return id_list(fn()); }}
#define IDL1(fn, kind) {#fn, kind, [](const char *id, const char *, const uint8_t *) { return id_list(fn(id)); }}
	    IDL0(bidib_get_boards), IDL0(bidib_get_boards_connected), IDL0(bidib_get_connected_points), IDL0(bidib_get_connected_signals),
	    IDL0(bidib_get_connected_peripherals), IDL0(bidib_get_connected_segments), IDL0(bidib_get_connected_reversers), IDL0(bidib_get_connected_boosters),
	    IDL0(bidib_get_boosters), IDL0(bidib_get_track_outputs), IDL0(bidib_get_connected_track_outputs), IDL0(bidib_get_trains), IDL0(bidib_get_trains_on_track),
	    IDL1(bidib_get_board_points, A_BOARD), IDL1(bidib_get_board_signals, A_BOARD), IDL1(bidib_get_board_peripherals, A_BOARD), IDL1(bidib_get_board_segments, A_BOARD),
	    IDL1(bidib_get_board_reversers, A_BOARD), IDL1(bidib_get_train_peripherals, A_TRAIN), IDL1(bidib_get_point_aspects, A_POINT), IDL1(bidib_get_signal_aspects, A_SIGNAL),
	    IDL1(bidib_get_peripheral_aspects, A_PERIPHERAL),
#undef IDL0
#undef IDL1
	};
	return t;
}

}  // namespace gq
}  // namespace vf
