// Well-formed state-bearing uplink messages that mostly refer to CONFIGURED equipment of boards on the
// bus (used to populate the tracked state before getters are exercised: C17, C10, C16). Values are
// drawn from the case bytes. Returns the node index the message comes from.
#pragma once
#include "harness/normal.hpp"
#include "harness/traffic.hpp"
#include "ref/msgs.hpp"

namespace vf {

static inline bool known_message(DP &dp, Normal &n, int &node, ref::Msg &m) {
	struct Src { int node; const cfg::Board *b; };
	std::vector<Src> srcs;
	for (size_t i = 0; i < n.bus.nodes.size(); i++) {
		if (n.bus.nodes[i].gone || n.bus.nodes[i].board_id.empty()) continue;
		if (const cfg::Board *b = n.c.board(n.bus.nodes[i].board_id)) srcs.push_back({(int) i, b});
	}
	if (srcs.empty()) return false;
	const Src &s = srcs[dp.pick((unsigned) srcs.size())];
	const cfg::Board *b = s.b;
	node = s.node;
	m.addr = n.bus.nodes[(size_t) node].addr;
	auto train = [&](uint8_t &l, uint8_t &h) {
		if (n.c.trains.empty()) { l = dp.u8(); h = (uint8_t) dp.pick(64); return; }
		auto &t = n.c.trains[dp.pick((unsigned) n.c.trains.size())];
		l = t.addrl; h = t.addrh;
	};
	for (int attempt = 0; attempt < 6; attempt++) {
		unsigned k = dp.pick(15);
		uint8_t l, h;
		switch (k) {
		case 0: if (!b->in_track || b->segments.empty()) break;
			m.type = dp.flag() ? M::BM_OCC : M::BM_FREE; m.data = {b->segments[dp.pick((unsigned) b->segments.size())].addr}; return true;
		case 1: if (!b->in_track || b->segments.empty()) break;
			train(l, h);
			m.type = M::BM_ADDRESS; m.data = {b->segments[dp.pick((unsigned) b->segments.size())].addr, l, (uint8_t) (h | (dp.flag() ? 0x80 : 0))};
			// a second entry; now and then the same decoder again (a detector should not do that, the library must survive it)
			if (dp.chance(60)) { uint8_t l2, h2; train(l2, h2); if (l2 != l || h2 != h || dp.chance(128)) { m.data.push_back(l2); m.data.push_back((uint8_t) (h2 | (dp.flag() ? 0x80 : 0))); } }
			return true;
		case 2: if (!b->in_track || b->segments.empty()) break;
			m.type = M::BM_CURRENT; m.data = {b->segments[dp.pick((unsigned) b->segments.size())].addr, dp.u8()}; return true;
		case 3: if (!b->in_track || b->segments.empty()) break;
			m.type = M::BM_CONFIDENCE; m.data = {(uint8_t) dp.pick(2), (uint8_t) dp.pick(2), (uint8_t) dp.pick(2)}; return true;
		case 4: train(l, h); m.type = M::BM_SPEED; m.data = {l, h, dp.u8(), dp.u8()}; return true;
		case 5: train(l, h); m.type = M::BM_DYN_STATE; m.data = {0, l, h, (uint8_t) dp.range(1, 5), dp.u8()}; return true;
		case 6: if (!b->is_booster()) break;
			if (dp.flag()) { m.type = M::BOOST_STAT; m.data = {traffic::BOOST_STATES_OK[dp.pick(sizeof traffic::BOOST_STATES_OK)]}; }
			else { m.type = M::BOOST_DIAGNOSTIC; m.data = {0, dp.u8(), 1, dp.u8(), 2, dp.u8()}; }
			return true;
		case 7: if (!b->is_track_output()) break;
			m.type = M::CS_STATE; m.data = {traffic::CS_STATES[dp.pick(sizeof traffic::CS_STATES)]}; return true;
		case 8: {
			if (!b->in_track) break;
			std::vector<const cfg::BoardAcc *> a;
			for (auto &x : b->points_board) a.push_back(&x);
			for (auto &x : b->signals_board) a.push_back(&x);
			if (a.empty()) break;
			const cfg::BoardAcc *x = a[dp.pick((unsigned) a.size())];
			m.type = M::ACCESSORY_STATE; m.data = {x->number, x->aspects[dp.pick((unsigned) x->aspects.size())].value, (uint8_t) x->aspects.size(), (uint8_t) dp.pick(4), dp.u8()};
			return true;
		}
		case 9: {
			if (!b->in_track || b->peripherals.empty()) break;
			const cfg::Periph &p = b->peripherals[dp.pick((unsigned) b->peripherals.size())];
			if (dp.flag()) { m.type = M::LC_STAT; m.data = {p.port0, p.port1, p.aspects[dp.pick((unsigned) p.aspects.size())].value}; }
			else { m.type = M::LC_WAIT; m.data = {p.port0, p.port1, dp.u8()}; }
			return true;
		}
		case 10: train(l, h); m.type = M::CS_DRIVE_ACK; m.data = {l, h, (uint8_t) dp.pick(4)}; return true;
		case 11: {
			if (!b->in_track) break;
			std::vector<const cfg::DccAcc *> a;
			for (auto &x : b->points_dcc) a.push_back(&x);
			for (auto &x : b->signals_dcc) a.push_back(&x);
			if (a.empty()) break;
			const cfg::DccAcc *x = a[dp.pick((unsigned) a.size())];
			if (dp.flag()) { m.type = M::CS_ACCESSORY_ACK; m.data = {x->addrl, x->addrh, (uint8_t) dp.pick(4)}; }
			else { m.type = M::CS_ACCESSORY_MANUAL; m.data = {x->addrl, x->addrh, dp.u8()}; }
			return true;
		}
		case 14:   // a hand-held controller drives a decoder: mostly a configured train, now and then an address nobody configured
			if (!b->is_track_output()) break;
			train(l, h);
			if (dp.chance(60)) { l = dp.u8(); h = (uint8_t) dp.pick(64); }
			m.type = M::CS_DRIVE_MANUAL; m.data = {l, h, (uint8_t) dp.pick(4), (uint8_t) dp.pick(64), dp.u8(), dp.u8(), dp.u8(), dp.u8(), dp.u8()}; return true;
		case 13:   // position report (RailCom): queued for the user, mirrored for SecAck boards
			train(l, h); m.type = M::BM_POSITION; m.data = {l, h, 0, dp.u8(), dp.u8()}; return true;
		default: {
			if (!b->in_track || b->reversers.empty()) break;
			const std::string &cv = b->reversers[dp.pick((unsigned) b->reversers.size())].cv;
			m.type = M::VENDOR;
			m.data = {(uint8_t) cv.size()};
			m.data.insert(m.data.end(), cv.begin(), cv.end());
			m.data.push_back(1);
			m.data.push_back((uint8_t) ('0' + dp.pick(4)));
			return true;
		}
		}
	}
	// nothing configured on that board: a harmless report
	m.type = M::BM_CONFIDENCE;
	m.data = {0, 0, 0};
	return true;
}

// injects up to `count` such messages, one per packet, and waits until they are processed
static inline unsigned inject_known_traffic(DP &dp, Normal &n, unsigned count, std::ostream *desc = nullptr) {
	unsigned sent = 0;
	for (unsigned i = 0; i < count; i++) {
		int node;
		ref::Msg m;
		if (!known_message(dp, n, node, m)) break;
		if (desc) *desc << "  rx " << ref::show(m) << "\n";
		n.bus.send_from(node, m.type, m.data);
		sent++;
	}
	n.s.settle();
	return sent;
}

}  // namespace vf
