// R-state: reference model of the tracked state as a value with one pure effect function per
// feedback message and per optimistic user command. Written from the BiDiB message tables
// (current / voltage codings, address-list format, diagnostic key/value list, drive function groups,
// speed coding) and the public header comments - not from the library's setters.
// The initial value is read from the library once after startup (the initial values themselves are
// the business of C14 / C20); from then on the model is folded independently.
#pragma once
#include "harness/normal.hpp"
#include "harness/snapshot.hpp"
#include "ref/msgs.hpp"
#include <map>
#include <vector>
#include <string>
#include <sstream>

namespace vf {

struct StateModel {
	struct Acc { std::string id, state_id; bool has_id = false; int value = 0, exec = 0, wait = 0; };
	struct Dcc { std::string id, state_id; bool has_id = false; int value = 0, coil = 0, timing = 0, ack = 0, unit = 0, time = 0; };
	struct Per { std::string id, state_id; bool has_id = false; int value = 0, unit = 0, wait = 0; };
	struct Addr { int h, l, type; };
	struct Seg { std::string id; int occ = 0, c_void = 0, c_freeze = 0, c_nosig = 0, pc_known = 0, pc_over = 0; unsigned pc_cur = 0; std::vector<Addr> addrs; };
	struct Rev { std::string id, state_id; bool has_id = false; int value = 0; };
	struct Fn { std::string id; int state = 0; int bit = -1; };
	struct Train {
		std::string id; int on_track = 0, orient = 0, step = 0, fwd = 0, ack = 0, kmh = 0; std::vector<Fn> fn;
		int k[5] = {0, 0, 0, 0, 0}, v[5] = {0, 0, 0, 0, 0};      // decoder dynamics: known / value (quality, temp, energy, c2, c3)
		int addrh = 0, addrl = 0;
	};
	struct Boost { std::string id; int power = 0, simple = 0, pc_known = 0, pc_over = 0; unsigned pc_cur = 0; int v_known = 0, volt = 0, t_known = 0, temp = 0; };
	struct Out { std::string id; int cs = 0; };

	std::map<std::string, Acc> points, signals;
	std::map<std::string, Dcc> dpoints, dsignals;
	std::map<std::string, Per> periphs;
	std::map<std::string, Seg> segs;
	std::map<std::string, Rev> revs;
	std::map<std::string, Train> trains;
	std::map<std::string, Boost> boosters;
	std::map<std::string, Out> outputs;
	const cfg::Config *c = nullptr;
	bool with_temp_known = true;

	static std::string so(const char *p, bool &has) { has = p != nullptr; return p ? p : ""; }

	// ---- initial value: the library's snapshot after startup
	void init(const cfg::Config &conf) {
		c = &conf;
		t_bidib_track_state st = bidib_get_state();
		for (size_t i = 0; i < st.points_board_count; i++) { Acc a; auto &x = st.points_board[i]; a.id = s_or(x.id); a.state_id = so(x.data.state_id, a.has_id); a.value = x.data.state_value; a.exec = x.data.execution_state; a.wait = x.data.wait_details; points[a.id] = a; }
		for (size_t i = 0; i < st.signals_board_count; i++) { Acc a; auto &x = st.signals_board[i]; a.id = s_or(x.id); a.state_id = so(x.data.state_id, a.has_id); a.value = x.data.state_value; a.exec = x.data.execution_state; a.wait = x.data.wait_details; signals[a.id] = a; }
		auto dcc = [&](const t_bidib_dcc_accessory_state &x) { Dcc d; d.id = s_or(x.id); d.state_id = so(x.data.state_id, d.has_id); d.value = x.data.state_value; d.coil = x.data.coil_on; d.timing = x.data.output_controls_timing; d.ack = x.data.ack; d.unit = x.data.time_unit; d.time = x.data.switch_time; return d; };
		for (size_t i = 0; i < st.points_dcc_count; i++) { Dcc d = dcc(st.points_dcc[i]); dpoints[d.id] = d; }
		for (size_t i = 0; i < st.signals_dcc_count; i++) { Dcc d = dcc(st.signals_dcc[i]); dsignals[d.id] = d; }
		for (size_t i = 0; i < st.peripherals_count; i++) { Per p; auto &x = st.peripherals[i]; p.id = s_or(x.id); p.state_id = so(x.data.state_id, p.has_id); p.value = x.data.state_value; p.unit = x.data.time_unit; p.wait = x.data.wait; periphs[p.id] = p; }
		for (size_t i = 0; i < st.segments_count; i++) {
			Seg g; auto &x = st.segments[i]; g.id = s_or(x.id); g.occ = x.data.occupied; g.c_void = x.data.confidence.conf_void; g.c_freeze = x.data.confidence.freeze; g.c_nosig = x.data.confidence.nosignal;
			g.pc_known = x.data.power_consumption.known; g.pc_over = g.pc_known ? x.data.power_consumption.overcurrent : 0; g.pc_cur = g.pc_known && !g.pc_over ? x.data.power_consumption.current : 0;
			for (size_t j = 0; j < x.data.dcc_address_cnt; j++) g.addrs.push_back({x.data.dcc_addresses[j].addrh, x.data.dcc_addresses[j].addrl, x.data.dcc_addresses[j].type});
			segs[g.id] = g;
		}
		for (size_t i = 0; i < st.reversers_count; i++) { Rev r; auto &x = st.reversers[i]; r.id = s_or(x.id); r.state_id = so(x.data.state_id, r.has_id); r.value = x.data.state_value; revs[r.id] = r; }
		for (size_t i = 0; i < st.trains_count; i++) {
			Train t; auto &x = st.trains[i]; t.id = s_or(x.id); t.on_track = x.data.on_track; t.orient = t.on_track ? (int) x.data.orientation : 0; t.step = x.data.set_speed_step; t.fwd = x.data.set_is_forwards; t.ack = x.data.ack; t.kmh = x.data.detected_kmh_speed;
			for (size_t j = 0; j < x.data.peripheral_cnt; j++) t.fn.push_back({s_or(x.data.peripherals[j].id), x.data.peripherals[j].state, -1});
			const t_bidib_train_decoder_state &k = x.data.decoder_state;
			t.k[0] = k.signal_quality_known; t.v[0] = t.k[0] ? k.signal_quality : 0; t.k[1] = k.temp_known; t.v[1] = t.k[1] ? k.temp_celsius : 0; t.k[2] = k.energy_storage_known; t.v[2] = t.k[2] ? k.energy_storage : 0;
			t.k[3] = k.container2_storage_known; t.v[3] = t.k[3] ? k.container2_storage : 0; t.k[4] = k.container3_storage_known; t.v[4] = t.k[4] ? k.container3_storage : 0;
			for (auto &ct : conf.trains) if (ct.id == t.id) { t.addrh = ct.addrh; t.addrl = ct.addrl; for (auto &f : t.fn) for (auto &cp : ct.periphs) if (cp.id == f.id) f.bit = cp.bit; }
			trains[t.id] = t;
		}
		for (size_t i = 0; i < st.booster_count; i++) { Boost b; auto &x = st.booster[i]; b.id = s_or(x.id); b.power = x.data.power_state; b.simple = x.data.power_state_simple; b.pc_known = x.data.power_consumption.known; b.pc_over = b.pc_known ? x.data.power_consumption.overcurrent : 0; b.pc_cur = b.pc_known && !b.pc_over ? x.data.power_consumption.current : 0; b.v_known = x.data.voltage_known; b.volt = b.v_known ? x.data.voltage : 0; b.t_known = with_temp_known ? x.data.temp_known : 0; b.temp = b.t_known ? x.data.temp_celsius : 0; boosters[b.id] = b; }
		for (size_t i = 0; i < st.track_outputs_count; i++) { Out o; o.id = s_or(st.track_outputs[i].id); o.cs = st.track_outputs[i].cs_state; outputs[o.id] = o; }
		bidib_free_track_state(st);
	}

	// ---- rendering (same format as harness/snapshot.hpp, keyed by "kind id")
	static std::string sid(bool has, const std::string &s) { return has ? s : "unknown"; }   // the getters report an unmapped aspect as "unknown"
	std::map<std::string, std::string> lines() const {
		std::map<std::string, std::string> r;
		auto acc = [&](const char *kind, const Acc &a) { std::ostringstream o; o << kind << " " << a.id << " state_id=" << sid(a.has_id, a.state_id) << " value=" << a.value << " exec=" << a.exec << " wait=" << a.wait; r[std::string(kind) + " " + a.id] = o.str(); };
		auto dcc = [&](const char *kind, const Dcc &a) { std::ostringstream o; o << kind << " " << a.id << " state_id=" << sid(a.has_id, a.state_id) << " value=" << a.value << " coil=" << a.coil << " timing=" << a.timing << " ack=" << a.ack << " unit=" << a.unit << " time=" << a.time; r[std::string(kind) + " " + a.id] = o.str(); };
		for (auto &kv : points) acc("point", kv.second);
		for (auto &kv : signals) acc("signal", kv.second);
		for (auto &kv : dpoints) dcc("dccpoint", kv.second);
		for (auto &kv : dsignals) dcc("dccsignal", kv.second);
		for (auto &kv : periphs) { auto &p = kv.second; std::ostringstream o; o << "peripheral " << p.id << " state_id=" << sid(p.has_id, p.state_id) << " value=" << p.value << " unit=" << p.unit << " wait=" << p.wait; r["peripheral " + p.id] = o.str(); }
		for (auto &kv : segs) {
			auto &d = kv.second; std::ostringstream o;
			o << "segment " << d.id << " occ=" << d.occ << " conf=" << d.c_void << d.c_freeze << d.c_nosig << " pc=" << d.pc_known;
			if (d.pc_known) o << "/" << d.pc_over;
			if (d.pc_known && !d.pc_over) o << "/" << d.pc_cur;
			o << " addrs=";
			for (auto &a : d.addrs) o << a.h << ":" << a.l << "t" << a.type << ",";
			r["segment " + d.id] = o.str();
		}
		for (auto &kv : revs) { auto &x = kv.second; std::ostringstream o; o << "reverser " << x.id << " state_id=" << sid(x.has_id, x.state_id) << " value=" << x.value; r["reverser " + x.id] = o.str(); }
		for (auto &kv : trains) {
			auto &d = kv.second; std::ostringstream o;
			o << "train " << d.id << " on_track=" << d.on_track;
			if (d.on_track) o << " orient=" << d.orient;
			o << " step=" << d.step << " fwd=" << d.fwd << " ack=" << d.ack << " kmh=" << d.kmh << " fn=";
			for (auto &f : d.fn) o << f.id << ":" << f.state << ",";
			o << " dec=" << d.k[0];
			if (d.k[0]) o << "/" << d.v[0];
			for (int i = 1; i < 5; i++) { o << " " << d.k[i]; if (d.k[i]) o << "/" << d.v[i]; }
			r["train " + d.id] = o.str();
		}
		for (auto &kv : boosters) {
			auto &d = kv.second; std::ostringstream o;
			o << "booster " << d.id << " power=" << d.power << " simple=" << d.simple << " pc=" << d.pc_known;
			if (d.pc_known) o << "/" << d.pc_over;
			if (d.pc_known && !d.pc_over) o << "/" << d.pc_cur;
			o << " volt=" << d.v_known;
			if (d.v_known) o << "/" << d.volt;
			if (with_temp_known) { o << " temp=" << d.t_known; if (d.t_known) o << "/" << d.temp; }
			r["booster " + d.id] = o.str();
		}
		for (auto &kv : outputs) { std::ostringstream o; o << "output " << kv.second.id << " cs=" << kv.second.cs; r["output " + kv.second.id] = o.str(); }
		return r;
	}
	static std::map<std::string, std::string> library_lines(bool with_temp = true) {
		std::map<std::string, std::string> r;
		std::istringstream is(snapshot_text(with_temp));
		std::string l;
		while (std::getline(is, l)) {
			size_t a = l.find(' '), b = l.find(' ', a + 1);
			std::string key = l.substr(0, b);
			while (r.count(key)) key += "'";          // duplicate rows would be a defect of their own: keep both visible
			r[key] = l;
		}
		return r;
	}
	// "" when equal, else the first difference
	std::string diff(bool with_temp = true) const {
		auto m = lines(), l = library_lines(with_temp);
		for (auto &kv : m) {
			auto it = l.find(kv.first);
			if (it == l.end()) return "entity '" + kv.first + "' is missing from bidib_get_state";
			if (it->second != kv.second) return "library: '" + it->second + "'  reference: '" + kv.second + "'";
		}
		for (auto &kv : l) if (!m.count(kv.first)) return "bidib_get_state reports '" + kv.second + "' which the reference does not have";
		return "";
	}

	// ---- codings (BiDiB tables)
	// current code -> (known, overcurrent, mA)
	static void current_code(int code, int &known, int &over, unsigned &ma) {
		known = 1; over = 0;
		if (code == 0) ma = 0;
		else if (code <= 15) ma = (unsigned) code;                  // 1 mA steps
		else if (code <= 63) ma = (unsigned) (code - 12) * 4;       // 4 mA steps from 16 mA
		else if (code <= 127) ma = (unsigned) (code - 51) * 16;     // 16 mA steps from 208 mA
		else if (code <= 191) ma = (unsigned) (code - 108) * 64;    // 64 mA steps from 1280 mA
		else if (code <= 250) ma = (unsigned) (code - 171) * 256;   // 256 mA steps from 5376 mA
		else if (code == 254) { over = 1; }
		else known = 0;                                             // 251..253 reserved, 255 unknown
	}
	static int speed_to_step(int speed) {
		int s = speed & 0x7f;
		if (s <= 1) return 0;                                       // stop / emergency stop
		return (speed & 0x80) ? s - 1 : -(s - 1);
	}

	// ---- recompute train presence from the segment lists (C08's invariant, applied after every occupancy change)
	void update_trains() {
		for (auto &tk : trains) {
			Train &t = tk.second;
			bool found = false;
			int type = 0;
			// segment order of the configuration (= order of the library's segment table)
			for (auto &b : c->boards) {
				if (!b.in_track) continue;
				for (auto &sg : b.segments) {
					auto it = segs.find(sg.id);
					if (it == segs.end()) continue;
					for (auto &a : it->second.addrs)
						if (a.h == t.addrh && a.l == t.addrl) { found = true; type = a.type; }
				}
			}
			t.on_track = found;
			if (found) t.orient = type == 0 ? 0 : 1;              // BIDIB_TRAIN_ORIENTATION_LEFT = 0
		}
	}

	// ---- lookups relative to the sending board
	Train *train_by_addr(int addrl, int addrh) {
		for (auto &kv : trains) if (kv.second.addrl == addrl && kv.second.addrh == (addrh & 0x3f)) return &kv.second;
		return nullptr;
	}
	Seg *seg_of(const cfg::Board *b, int number) {
		if (!b || !b->in_track) return nullptr;
		for (auto &s : b->segments) if (s.addr == number) { auto it = segs.find(s.id); return it == segs.end() ? nullptr : &it->second; }
		return nullptr;
	}
	void apply_drive(int addrl, int addrh, int active, int speed, const int f[4]) {
		Train *t = train_by_addr(addrl, addrh);
		if (!t) return;
		if (active == 0) {
			t->step = 0; t->fwd = 1;
			for (auto &x : t->fn) x.state = 0;
			return;
		}
		if (active & 1) { t->step = speed_to_step(speed); t->fwd = speed >= 0x80; }
		t->ack = 4;                                                // BIDIB_DCC_ACK_PENDING
		static const int LO[] = {0, 8, 12, 16, 24}, HI[] = {4, 11, 15, 23, 31};
		for (int g = 0; g < 5; g++)
			if (active & (2 << g))
				for (auto &x : t->fn)
					if (x.bit >= LO[g] && x.bit <= HI[g]) x.state = (f[x.bit / 8] >> (x.bit % 8)) & 1;
	}

	// Effect of one uplink message sent by configured & connected board b (nullptr = unknown / unconfigured node).
	// Returns true if the message refers to known equipment (i.e. may change something).
	bool rx(const cfg::Board *b, const ref::Msg &m) {
		const ref::Bytes &d = m.data;
		switch (m.type) {
		case M::ACCESSORY_STATE: case M::ACCESSORY_NOTIFY: {
			if (!b || !b->in_track) return false;
			for (int k = 0; k < 2; k++)
				for (auto &a : (k == 0 ? b->points_board : b->signals_board))
					if (a.number == d[0]) {
						Acc &s = (k == 0 ? points : signals)[a.id];
						s.has_id = false; s.state_id.clear();
						for (auto &as : a.aspects) if (as.value == d[1]) { s.has_id = true; s.state_id = as.id; break; }
						s.value = d[1]; s.exec = d[3]; s.wait = d[4];
						return true;
					}
			return false;
		}
		case M::LC_STAT: case M::LC_WAIT: {
			if (!b || !b->in_track) return false;
			for (auto &p : b->peripherals)
				if (p.port0 == d[0] && p.port1 == d[1]) {
					Per &s = periphs[p.id];
					if (m.type == M::LC_STAT) {
						s.has_id = false; s.state_id.clear();
						for (auto &as : p.aspects) if (as.value == d[2]) { s.has_id = true; s.state_id = as.id; break; }
						s.value = d[2];
					} else { s.unit = (d[2] & 0x80) ? 1 : 0; s.wait = d[2] & 0x7f; }
					return true;
				}
			return false;
		}
		case M::BM_OCC: case M::BM_FREE: {
			Seg *s = seg_of(b, d[0]);
			if (!s) return false;
			s->occ = m.type == M::BM_OCC;
			if (!s->occ) s->addrs.clear();
			update_trains();
			return true;
		}
		case M::BM_MULTIPLE: {
			bool any = false;
			for (int i = 0; i < d[1]; i++) {
				Seg *s = seg_of(b, d[0] + i);
				if (!s || d[0] + i > 255) continue;
				any = true;
				s->occ = (d[2 + (size_t) i / 8] >> (i % 8)) & 1;
				if (!s->occ) s->addrs.clear();
			}
			update_trains();
			return any;
		}
		case M::BM_CONFIDENCE: {
			if (!b) return false;
			bool any = false;
			if (b->in_track)
				for (auto &sg : b->segments) { Seg &s = segs[sg.id]; s.c_void = d[0] != 0; s.c_freeze = d[1] != 0; s.c_nosig = d[2] != 0; any = true; }
			return any;
		}
		case M::BM_ADDRESS: {
			Seg *s = seg_of(b, d[0]);
			if (!s) return false;
			s->addrs.clear();
			size_t n = (d.size() - 1) / 2;
			if (!(n == 1 && d[1] == 0 && d[2] == 0))
				for (size_t i = 0; i < n; i++) {
					int l = d[1 + 2 * i], h = d[2 + 2 * i];
					if (h & 0x40) continue;                         // accessory / extended accessory address: not a vehicle
					s->addrs.push_back({h & 0x3f, l, (h >> 6) & 3});
				}
			update_trains();
			return true;
		}
		case M::BM_CURRENT: {
			Seg *s = seg_of(b, d[0]);
			if (!s) return false;
			int k, o; unsigned ma = s->pc_cur;
			current_code(d[1], k, o, ma);
			s->pc_known = k;
			if (k) { s->pc_over = o; if (!o) s->pc_cur = ma; }
			return true;
		}
		case M::BM_SPEED: {
			Train *t = train_by_addr(d[0], d[1]);
			if (!t) return false;
			t->kmh = d[3] << 8 | d[2];
			return true;
		}
		case M::BM_DYN_STATE: {
			Train *t = train_by_addr(d[1], d[2]);
			if (!t || d[3] < 1 || d[3] > 5) return false;
			t->k[d[3] - 1] = 1; t->v[d[3] - 1] = d[3] == 2 ? (int) (int8_t) d[4] : (int) d[4];
			return true;
		}
		case M::BOOST_STAT: {
			if (!b || !b->is_booster()) return false;
			Boost &s = boosters[b->id];
			s.power = d[0];
			s.simple = (d[0] == 0x01 || d[0] == 0x02) ? 2 : (d[0] & 0x80) ? 0 : 1;   // only undisputed codes are generated
			return true;
		}
		case M::BOOST_DIAGNOSTIC: {
			if (!b || !b->is_booster()) return false;
			Boost &s = boosters[b->id];
			for (size_t i = 0; i + 1 < d.size(); i += 2) {
				if (d[i] == 0) { int k, o; unsigned ma = s.pc_cur; current_code(d[i + 1], k, o, ma); s.pc_known = k; if (k) { s.pc_over = o; if (!o) s.pc_cur = ma; } }
				else if (d[i] == 1) { if (d[i + 1] <= 250) { s.v_known = 1; s.volt = d[i + 1]; } else s.v_known = 0; }
				else if (d[i] == 2) { s.t_known = with_temp_known ? 1 : 0; s.temp = (int8_t) d[i + 1]; }
			}
			return true;
		}
		case M::CS_STATE: {
			if (!b || !b->is_track_output()) return false;
			outputs[b->id].cs = d[0];
			return true;
		}
		case M::CS_DRIVE_ACK: {
			Train *t = train_by_addr(d[0], d[1]);
			if (!t) return false;
			t->ack = d[2];
			return true;
		}
		case M::CS_ACCESSORY_ACK: case M::CS_ACCESSORY_MANUAL: {
			if (!b || !b->in_track) return false;
			for (int k = 0; k < 2; k++)
				for (auto &a : (k == 0 ? b->points_dcc : b->signals_dcc))
					if (a.addrl == d[0] && a.addrh == d[1]) {
						Dcc &s = (k == 0 ? dpoints : dsignals)[a.id];
						if (m.type == M::CS_ACCESSORY_ACK) s.ack = d[2];
						else { s.value = d[2] & 0x1f; s.coil = (d[2] >> 5) & 1; s.time = 0; }
						return true;
					}
			return false;
		}
		case M::CS_DRIVE_MANUAL: {
			if (!train_by_addr(d[0], d[1])) return false;
			int f[4] = {d[5], d[6], d[7], d[8]};
			apply_drive(d[0], d[1], d[3], d[4], f);
			return true;
		}
		case M::VENDOR: {
			if (!b || !b->in_track || d.empty() || (size_t) d[0] + 2 > d.size()) return false;
			std::string name(d.begin() + 1, d.begin() + 1 + d[0]);
			size_t vl = d[1 + (size_t) d[0]];
			std::string val(d.end() - (long) vl, d.end());
			for (auto &r : b->reversers)
				if (r.cv == name) {
					Rev &s = revs[r.id];
					s.has_id = true; s.state_id = r.id;
					s.value = (!val.empty() && val[0] == '0') ? 0 : (!val.empty() && val[0] == '3') ? 1 : 2;
					return true;
				}
			return false;
		}
		default: return false;
		}
	}
};

}  // namespace vf
