// R-codec: independent reference implementation of the BiDiB serial framing and message
// layout, written from the protocol description (bidib.org "Serial Link" and "Message
// structure"), NOT from the library: bit-wise CRC-8, escaping, strict decoder.
//   packet  = FE escaped(payload || crc8(payload)) FE      escape: FD, b^0x20 for b in {FD,FE}
//   crc8    = poly x^8+x^5+x^4+1, reflected (0x8C), init 0, no final xor
//   message = LEN ADDR... 00 SEQ TYPE DATA...    LEN counts the bytes after itself
#pragma once
#include <cstdint>
#include <vector>
#include <string>

namespace ref {

using Bytes = std::vector<uint8_t>;

static inline uint8_t crc8_step(uint8_t crc, uint8_t b) {
	crc ^= b;
	for (int i = 0; i < 8; i++) crc = (crc & 1) ? (uint8_t) ((crc >> 1) ^ 0x8C) : (uint8_t) (crc >> 1);
	return crc;
}
static inline uint8_t crc8(const Bytes &v) {
	uint8_t c = 0;
	for (uint8_t b : v) c = crc8_step(c, b);
	return c;
}

struct Msg {
	Bytes addr;      // 0..3 non-zero bytes (path of local addresses), empty = interface itself
	uint8_t seq = 0;
	uint8_t type = 0;
	Bytes data;
	bool operator==(const Msg &o) const {
		return addr == o.addr && seq == o.seq && type == o.type && data == o.data;
	}
	bool same_but_seq(const Msg &o) const { return addr == o.addr && type == o.type && data == o.data; }
};

static inline Bytes encode_msg(const Msg &m) {
	Bytes b;
	b.push_back((uint8_t) (m.addr.size() + 1 + 2 + m.data.size()));
	for (uint8_t a : m.addr) b.push_back(a);
	b.push_back(0);
	b.push_back(m.seq);
	b.push_back(m.type);
	for (uint8_t d : m.data) b.push_back(d);
	return b;
}

static inline void put_escaped(Bytes &out, uint8_t b) {
	if (b == 0xFE || b == 0xFD) {
		out.push_back(0xFD);
		out.push_back(b ^ 0x20);
	} else out.push_back(b);
}

// payload: unescaped concatenation of messages. lead/trail: emit the delimiters.
static inline Bytes frame(const Bytes &payload, bool lead = true, bool trail = true) {
	Bytes out;
	if (lead) out.push_back(0xFE);
	for (uint8_t b : payload) put_escaped(out, b);
	put_escaped(out, crc8(payload));
	if (trail) out.push_back(0xFE);
	return out;
}

// Parses one message at payload[off..]; returns bytes consumed or 0 when malformed.
static inline size_t parse_msg(const Bytes &payload, size_t off, Msg &m, std::string *why = nullptr) {
	auto bad = [&](const char *w) { if (why) *why = w; return (size_t) 0; };
	if (off >= payload.size()) return bad("empty");
	size_t len = payload[off];
	if (len < 3) return bad("length byte < 3");
	if (off + 1 + len > payload.size()) return bad("message longer than packet");
	size_t i = off + 1, end = off + 1 + len;
	m.addr.clear();
	while (i < end && payload[i] != 0) {
		m.addr.push_back(payload[i]);
		i++;
	}
	if (i >= end) return bad("address stack not terminated");
	if (m.addr.size() > 3) return bad("address stack deeper than 3");
	i++;                       // terminator
	if (i + 2 > end) return bad("no room for seq and type");
	m.seq = payload[i++];
	m.type = payload[i++];
	m.data.assign(payload.begin() + (long) i, payload.begin() + (long) end);
	return 1 + len;
}

struct Packet {
	bool crc_ok = false;
	bool well_formed = false;        // crc ok and payload splits into whole messages
	std::string why;
	Bytes payload;                   // unescaped, without crc
	std::vector<Msg> msgs;
	size_t start = 0, end = 0;       // byte offsets in the stream [start,end)
	size_t escaped = 0;              // number of escape sequences
	bool crc_escaped = false;
};

struct StreamDecode {
	std::vector<Packet> packets;
	std::string error;               // non-empty: the stream is not a sequence of packets
	Bytes tail;                      // bytes after the last delimiter (incomplete packet)
};

// Strict decoder for what the library writes (C01): every packet must start and end
// with a delimiter, every FD must be followed by an escapable byte, CRC must match.
// Adjacent packets may share a delimiter or have one each.
static inline StreamDecode decode_strict(const Bytes &s) {
	StreamDecode r;
	size_t i = 0;
	if (s.empty()) return r;
	if (s[0] != 0xFE) {
		r.error = "stream does not start with a delimiter";
		return r;
	}
	while (i < s.size()) {
		while (i < s.size() && s[i] == 0xFE) i++;      // delimiter(s)
		if (i >= s.size()) break;
		Packet p;
		p.start = i - 1;
		Bytes raw;
		bool closed = false;
		while (i < s.size()) {
			uint8_t b = s[i++];
			if (b == 0xFE) { closed = true; break; }
			if (b == 0xFD) {
				if (i >= s.size()) { r.error = "escape at end of stream"; return r; }
				uint8_t e = s[i++];
				if (e != (0xFE ^ 0x20) && e != (0xFD ^ 0x20)) {
					r.error = "escape followed by a byte that needs no escaping";
					return r;
				}
				raw.push_back(e ^ 0x20);
				p.escaped++;
				if (i < s.size() && s[i] == 0xFE) p.crc_escaped = true;
			} else raw.push_back(b);
		}
		if (!closed) {
			r.tail = raw;
			r.error = "last packet not terminated by a delimiter";
			return r;
		}
		p.end = i;
		i--;                            // closing delimiter may open the next packet
		if (raw.size() < 2) { r.error = "packet too short"; return r; }
		uint8_t crc = raw.back();
		raw.pop_back();
		p.payload = raw;
		p.crc_ok = crc8(raw) == crc;
		if (!p.crc_ok) { r.error = "bad crc"; r.packets.push_back(p); return r; }
		size_t off = 0;
		p.well_formed = true;
		while (off < raw.size()) {
			Msg m;
			size_t c = parse_msg(raw, off, m, &p.why);
			if (!c) { p.well_formed = false; break; }
			p.msgs.push_back(m);
			off += c;
		}
		if (!p.well_formed) { r.error = "payload is not a concatenation of whole messages: " + p.why; r.packets.push_back(p); return r; }
		r.packets.push_back(p);
		i++;
	}
	return r;
}

// Lenient decoder describing what a conforming receiver sees in an arbitrary byte stream
// (C02/C12): fragments between delimiters, escape handling, CRC verdict per fragment.
// ambiguous is set when the stream contains a corner the specification leaves open
// (an escape byte directly before a delimiter).
struct Fragment {
	Bytes raw;          // unescaped bytes including crc
	bool crc_ok = false;
	bool well_formed = false;
	std::vector<Msg> msgs;
	std::string why;
};
static inline std::vector<Fragment> decode_lenient(const Bytes &s, bool *ambiguous = nullptr) {
	std::vector<Fragment> out;
	size_t i = 0;
	// skip everything up to and including the first delimiter
	while (i < s.size() && s[i] != 0xFE) i++;
	Bytes raw;
	bool esc = false;
	for (; i < s.size(); i++) {
		uint8_t b = s[i];
		if (b == 0xFE) {
			if (esc && ambiguous) *ambiguous = true;
			if (!raw.empty()) {
				Fragment f;
				f.raw = raw;
				uint8_t c = 0;
				for (uint8_t x : raw) c = crc8_step(c, x);
				f.crc_ok = c == 0 && raw.size() >= 1;
				if (f.crc_ok) {
					Bytes pl(raw.begin(), raw.end() - 1);
					size_t off = 0;
					f.well_formed = !pl.empty();
					while (off < pl.size()) {
						Msg m;
						size_t k = parse_msg(pl, off, m, &f.why);
						if (!k) { f.well_formed = false; break; }
						f.msgs.push_back(m);
						off += k;
					}
				}
				out.push_back(f);
				raw.clear();
			}
			continue;
		}
		if (b == 0xFD) { esc = true; continue; }
		raw.push_back(esc ? (uint8_t) (b ^ 0x20) : b);
		esc = false;
	}
	return out;
}

static inline std::string show(const Msg &m) {
	static const char *H = "0123456789abcdef";
	std::string s = "[";
	for (size_t i = 0; i < m.addr.size(); i++) {
		if (i) s += '.';
		s += std::to_string(m.addr[i]);
	}
	if (m.addr.empty()) s += '0';
	s += " #" + std::to_string(m.seq) + " t=";
	s.push_back(H[m.type >> 4]);
	s.push_back(H[m.type & 15]);
	s += " d=";
	for (uint8_t d : m.data) {
		s.push_back(H[d >> 4]);
		s.push_back(H[d & 15]);
	}
	return s + "]";
}

}  // namespace ref
