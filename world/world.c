/* Baton scheduler implementation of the world (see world.h). */
#define _GNU_SOURCE
#include "world.h"
#include <stdlib.h>
#include <string.h>
#include <stdarg.h>
#include <errno.h>
#include <unistd.h>

#define MAXT 256
#define MAXL 64
#define MAXHELD 16
#define MAXEDGE 256
#define LOGLINES 128
#define LOGW 240
#define MAXANOM 64
#define MAXFILES 8

enum { T_FREE = 0, T_RUN, T_SLEEP, T_LOCK, T_JOIN, T_DONE, T_WAITREL };

typedef struct {
	const void *addr;
	int is_rw;
	int owner;                 /* exclusive owner or -1 */
	int nreaders;              /* total read acquisitions outstanding */
	unsigned char rd[MAXT];    /* per-thread read count */
	int inited;
} lk_t;

typedef struct {
	int state;
	uint64_t wake;
	lk_t *wlock;
	int wmode;                 /* 1 excl, 2 shared */
	int wjoin;
	const void *wrel;      /* T_WAITREL: the lock whose next release (by another thread) wakes this thread */
	pthread_t real;
	pthread_cond_t cv;
	vf_fn fn;
	void *arg;
	void *ret;
	int joined;
	int nheld;
	lk_t *held[MAXHELD];
	unsigned char hmode[MAXHELD];
} th_t;

static pthread_mutex_t G = PTHREAD_MUTEX_INITIALIZER;
static th_t th[MAXT];
static int nth;
static int cur;
static __thread int my_id = -1;
static uint64_t now_us;
static uint64_t time_cap;
static int world_gen;          /* incremented on every init (stale handles) */

static lk_t lk[MAXL];
static int nlk;

static struct { const void *addr; char name[40]; } names[MAXL];
static int nnames;

static struct { lk_t *a, *b; unsigned count; } edges[MAXEDGE];
static int nedges;
static unsigned max_nesting;
static unsigned long lock_ops;

static char anom[MAXANOM][200];
static size_t nanom;
static char infos[MAXANOM][200];
static size_t ninfo;

static char logs[LOGLINES][LOGW];
static char errlogs[32][LOGW];
static unsigned long log_total, log_errors;

static struct { char path[200]; char *content; size_t len; } files[MAXFILES];
static int nfiles;

static const uint8_t *sched;
static size_t sched_len, sched_pos;
static int sched_random;
static unsigned sched_prob;
static uint32_t sched_rng;
static unsigned long dp_index, next_preempt_at;
static unsigned preempt_pick;
static unsigned long naps_taken;
static int forced_next = -1;      /* a release-waiter that was just woken: it runs first (vf_wait_release) */
static int cancel_waits;
static int have_preempt;
static unsigned preempt_taken;

static vf_fatal_fn fatal_fn;
static vf_lock_observer observer;

static unsigned n_created, n_joined;

#define HANDLE_BASE 0x5000UL

/* ------------------------------------------------------------------------ */

static void anomaly(const char *fmt, ...) {
	if (nanom >= MAXANOM) return;
	va_list ap;
	va_start(ap, fmt);
	vsnprintf(anom[nanom++], sizeof anom[0], fmt, ap);
	va_end(ap);
}

static void info(const char *fmt, ...) {
	if (ninfo >= MAXANOM) return;
	va_list ap;
	va_start(ap, fmt);
	vsnprintf(infos[ninfo++], sizeof infos[0], fmt, ap);
	va_end(ap);
}

const char *vf_lock_name(const void *addr) {
	static __thread char buf[32];
	for (int i = 0; i < nnames; i++)
		if (names[i].addr == addr) return names[i].name;
	/* a lock the harness has no symbol for (file-static mutexes of the library): numbered in order of first use,
	 * so that its name does not depend on the load address */
	if (nnames < MAXL) {
		static int nunnamed = 0;
		names[nnames].addr = addr;
		snprintf(names[nnames].name, sizeof names[0].name, "unnamed_static_lock_%d", ++nunnamed);
		return names[nnames++].name;
	}
	snprintf(buf, sizeof buf, "lock@%p", addr);
	return buf;
}

void vf_name_lock(const void *addr, const char *name) {
	for (int i = 0; i < nnames; i++)
		if (names[i].addr == addr) return;
	if (nnames < MAXL) {
		names[nnames].addr = addr;
		snprintf(names[nnames].name, sizeof names[0].name, "%s", name);
		nnames++;
	}
}

static void describe_threads(char *buf, size_t n) {
	size_t o = 0;
	for (int i = 0; i < nth && o + 160 < n; i++) {
		th_t *t = &th[i];
		const char *st = "?";
		switch (t->state) {
		case T_RUN: st = "runnable"; break;
		case T_SLEEP: st = "sleeping"; break;
		case T_LOCK: st = "blocked-on-lock"; break;
		case T_JOIN: st = "blocked-in-join"; break;
		case T_WAITREL: st = "waiting-for-a-release"; break;
		case T_DONE: continue;
		}
		o += snprintf(buf + o, n - o, "[t%d %s", i, st);
		if (t->state == T_LOCK)
			o += snprintf(buf + o, n - o, " %s(%s)", vf_lock_name(t->wlock->addr),
			              t->wmode == 1 ? "excl" : "shared");
		if (t->state == T_JOIN) o += snprintf(buf + o, n - o, " t%d", t->wjoin);
		if (t->nheld) {
			o += snprintf(buf + o, n - o, " holds");
			for (int h = 0; h < t->nheld && o + 60 < n; h++)
				o += snprintf(buf + o, n - o, " %s/%s", vf_lock_name(t->held[h]->addr),
				              t->hmode[h] == 1 ? "excl" : "shared");
		}
		o += snprintf(buf + o, n - o, "] ");
	}
}

static void fatal(const char *kind) {
	char buf[2000];
	describe_threads(buf, sizeof buf);
	vf_fatal_fn f = fatal_fn;
	pthread_mutex_unlock(&G);
	if (f) f(kind, buf);
	fprintf(stderr, "VF-FATAL %s: %s\n", kind, buf);
	_exit(97);
}

/* ---- schedule ---------------------------------------------------------- */

static unsigned gap_decode(uint8_t b) {
	b &= 0x7f;
	if (b < 0x40) return b;
	return (unsigned) (b - 0x3f) * 32;
}

static void load_preempt(void) {
	if (sched_pos + 1 < sched_len) {
		next_preempt_at = dp_index + gap_decode(sched[sched_pos]);
		preempt_pick = sched[sched_pos + 1];
		sched_pos += 2;
		have_preempt = 1;
	} else {
		have_preempt = 0;
	}
}

static uint32_t rng_next(void) {
	uint32_t x = sched_rng;
	x ^= x << 13;
	x ^= x >> 17;
	x ^= x << 5;
	return sched_rng = x ? x : 0x9e3779b9u;
}

static int lock_acquirable(th_t *t, int tid) {
	lk_t *l = t->wlock;
	if (t->wmode == 2) return l->owner == -1;
	(void) tid;
	return l->owner == -1 && l->nreaders == 0;
}

/* Greatest fixpoint: set of blocked threads all of whose potential wakers are
 * in the set too.  Non-empty => wait-for cycle (deadlock). */
static int deadlocked(void) {
	unsigned char stuck[MAXT];
	for (int i = 0; i < nth; i++)
		stuck[i] = (th[i].state == T_LOCK || th[i].state == T_JOIN);
	int changed = 1;
	while (changed) {
		changed = 0;
		for (int i = 0; i < nth; i++) {
			if (!stuck[i]) continue;
			th_t *t = &th[i];
			int free_ = 0;
			if (t->state == T_JOIN) {
				int j = t->wjoin;
				if (th[j].state == T_DONE || !stuck[j]) free_ = 1;
			} else {
				lk_t *l = t->wlock;
				if (lock_acquirable(t, i)) free_ = 1;
				/* some holder that is not stuck and not finished can release */
				if (l->owner >= 0 && !stuck[l->owner] && th[l->owner].state != T_DONE) free_ = 1;
				if (t->wmode == 1 && l->owner < 0) {
					/* readers block us: if any reader is not stuck, hope remains;
					 * if all readers are stuck or done, we are stuck */
					int all_stuck = 1;
					for (int r = 0; r < nth; r++)
						if (l->rd[r] && !stuck[r] && th[r].state != T_DONE) all_stuck = 0;
					if (!all_stuck) free_ = 1;
				}
			}
			if (free_) { stuck[i] = 0; changed = 1; }
		}
	}
	for (int i = 0; i < nth; i++)
		if (stuck[i]) return 1;
	return 0;
}

/* Chooses the next thread to run. `me` is the calling thread (may no longer be
 * runnable). Advances virtual time when nobody is runnable. */
static int pick(int me) {
	for (;;) {
		int cand[MAXT], n = 0;
		for (int i = 0; i < nth; i++) {
			th_t *t = &th[i];
			switch (t->state) {
			case T_RUN: cand[n++] = i; break;
			case T_SLEEP: if (t->wake <= now_us) cand[n++] = i; break;
			case T_LOCK: if (lock_acquirable(t, i)) cand[n++] = i; break;
			case T_JOIN: if (th[t->wjoin].state == T_DONE) cand[n++] = i; break;
			default: break;
			}
		}
		if (n == 0) {
			uint64_t mn = UINT64_MAX;
			for (int i = 0; i < nth; i++)
				if (th[i].state == T_SLEEP && th[i].wake < mn) mn = th[i].wake;
			if (mn == UINT64_MAX) fatal("deadlock");
			now_us = mn;
			if (time_cap && now_us > time_cap) fatal("hang");
			continue;
		}
		if (forced_next >= 0) {
			int f = forced_next;
			forced_next = -1;
			for (int i = 0; i < n; i++)
				if (cand[i] == f) { dp_index++; if (f != me) preempt_taken++; return f; }
		}
		int def = -1;
		for (int i = 0; i < n; i++)
			if (cand[i] == me) def = me;
		if (def < 0) def = cand[0];
		/* A running thread may be preempted for any length of time, so a thread that sleeps only a little longer
		 * (a polling receiver, the auto-flush thread) may overtake it here: when the schedule asks for it (bit 7 of the
		 * pick byte / random mode), sleepers due within 20 ms are candidates too and virtual time jumps to their wake-up.
		 * Without this, zero-cost CPU time would never let a sleeper run in the middle of another thread's call. */
		int ext[MAXT], ne = 0;
		if (sched_random || (have_preempt && (preempt_pick & 0x80) && dp_index >= next_preempt_at))
			for (int i = 0; i < nth; i++)
				if (th[i].state == T_SLEEP && th[i].wake > now_us && th[i].wake - now_us <= 20000) ext[ne++] = i;
		if (n == 1 && ne == 0) return cand[0];
		/* decision point */
		int choice = def;
		uint64_t nap = 0;      /* a preempted thread may stay off the CPU for a while (3..15 ms): "long" preemption */
		if (sched_random) {
			if ((rng_next() & 0xff) < sched_prob) {
				unsigned k = rng_next() % (unsigned) (n + ne);
				if ((int) k < n) choice = cand[k];
				else { choice = ext[k - (unsigned) n]; now_us = th[choice].wake; }
				uint32_t r = rng_next();
				if ((r & 7) == 0) nap = 3000 + (uint64_t) ((r >> 3) & 3) * 4000;
			}
		} else if (have_preempt && dp_index >= next_preempt_at) {
			unsigned k = (unsigned) (preempt_pick & 0x1f) % (unsigned) (n + ne);
			if ((int) k < n) choice = cand[k];
			else { choice = ext[k - (unsigned) n]; now_us = th[choice].wake; }
			if ((preempt_pick & 0x60) == 0x60) nap = 3000 + (uint64_t) ((preempt_pick >> 2) & 3) * 4000;
			dp_index++;
			load_preempt();
			dp_index--;
		}
		dp_index++;
		if (choice != def) preempt_taken++;
		if (nap && choice != me && me >= 0 && me < nth && th[me].state == T_RUN) {
			th[me].state = T_SLEEP;
			th[me].wake = now_us + nap;
			naps_taken++;
		}
		return choice;
	}
}

/* G held. Hands the baton to the picked thread and waits to get it back. */
static void reschedule(int me) {
	int n = pick(me);
	if (n != me) {
		cur = n;
		pthread_cond_signal(&th[n].cv);
		while (cur != me) pthread_cond_wait(&th[me].cv, &G);
	}
	th_t *t = &th[me];
	if (t->state == T_SLEEP || t->state == T_JOIN) t->state = T_RUN;
	/* T_LOCK: caller re-checks and sets state */
}

static int self_checked(void) {
	if (my_id < 0) {
		fprintf(stderr, "VF-FATAL: world function called from a non-world thread\n");
		_exit(98);
	}
	return my_id;
}

/* ---- lifecycle ----------------------------------------------------------- */

void vf_world_init(const uint8_t *s, size_t slen) {
	pthread_mutex_lock(&G);
	for (int i = 0; i < nth; i++) pthread_cond_destroy(&th[i].cv);
	memset(th, 0, sizeof th);
	memset(lk, 0, sizeof lk);
	nlk = 0;
	nedges = 0;
	max_nesting = 0;
	lock_ops = 0;
	nanom = ninfo = 0;
	log_total = log_errors = 0;
	now_us = 0;
	time_cap = 0;
	n_created = n_joined = 0;
	world_gen++;
	nth = 1;
	th[0].state = T_RUN;
	th[0].real = pthread_self();
	pthread_cond_init(&th[0].cv, NULL);
	my_id = 0;
	cur = 0;
	sched = s;
	sched_len = slen;
	sched_pos = 0;
	sched_random = 0;
	dp_index = 0;
	preempt_taken = 0;
	naps_taken = 0;
	forced_next = -1;
	cancel_waits = 0;
	have_preempt = 0;
	if (slen > 0 && (s[0] & 0x80)) {
		sched_random = 1;
		sched_prob = (unsigned) (s[0] & 0x7f) + 1;
		sched_rng = 0x12345u;
		for (size_t i = 1; i < slen && i < 5; i++) sched_rng = sched_rng * 257u + s[i];
		if (!sched_rng) sched_rng = 1;
	} else {
		load_preempt();
	}
	pthread_mutex_unlock(&G);
}

int vf_world_fini(void) {
	int alive = 0;
	pthread_mutex_lock(&G);
	for (int i = 1; i < nth; i++)
		if (th[i].state != T_DONE) alive++;
	pthread_mutex_unlock(&G);
	return alive;
}

int vf_free_running(void) { return 0; }
uint64_t vf_now_us(void) { return now_us; }
void vf_set_time_cap(uint64_t c) { time_cap = c; }
void vf_set_fatal_handler(vf_fatal_fn f) { fatal_fn = f; }
void vf_set_lock_observer(vf_lock_observer o) { observer = o; }
int vf_self(void) { return my_id; }
unsigned long vf_decision_points(void) { return dp_index; }
unsigned vf_preemptions_taken(void) { return preempt_taken; }
unsigned vf_threads_created(void) { return n_created; }
unsigned vf_threads_joined(void) { return n_joined; }

unsigned vf_threads_unjoined_done(void) {
	unsigned n = 0;
	for (int i = 1; i < nth; i++)
		if (th[i].state == T_DONE && !th[i].joined) n++;
	return n;
}

unsigned vf_threads_alive(void) {
	unsigned n = 0;
	for (int i = 1; i < nth; i++)
		if (th[i].state != T_DONE) n++;
	return n;
}

/* ---- threads --------------------------------------------------------------- */

static void *trampoline(void *p) {
	int id = (int) (intptr_t) p;
	my_id = id;
	pthread_mutex_lock(&G);
	while (cur != id) pthread_cond_wait(&th[id].cv, &G);
	pthread_mutex_unlock(&G);
	void *r = th[id].fn(th[id].arg);
	pthread_mutex_lock(&G);
	th[id].ret = r;
	if (th[id].nheld) {
		char b[300];
		size_t o = 0;
		for (int h = 0; h < th[id].nheld && o + 50 < sizeof b; h++)
			o += snprintf(b + o, sizeof b - o, " %s", vf_lock_name(th[id].held[h]->addr));
		anomaly("thread t%d exited holding%s", id, b);
	}
	th[id].state = T_DONE;
	if (deadlocked()) fatal("deadlock");
	int n = pick(id);
	cur = n;
	pthread_cond_signal(&th[n].cv);
	pthread_mutex_unlock(&G);
	return NULL;
}

int vf_pthread_create(pthread_t *t, const pthread_attr_t *a, vf_fn fn, void *arg) {
	(void) a;
	int me = self_checked();
	pthread_mutex_lock(&G);
	if (nth >= MAXT) {
		pthread_mutex_unlock(&G);
		return EAGAIN;
	}
	int id = nth++;
	th[id].state = T_RUN;
	th[id].fn = fn;
	th[id].arg = arg;
	pthread_cond_init(&th[id].cv, NULL);
	n_created++;
	*t = (pthread_t) (HANDLE_BASE + (unsigned long) world_gen * MAXT + (unsigned long) id);
	pthread_attr_t at;
	pthread_attr_init(&at);
	pthread_attr_setstacksize(&at, 1 << 20);
	if (pthread_create(&th[id].real, &at, trampoline, (void *) (intptr_t) id) != 0) {
		fprintf(stderr, "VF-FATAL: real pthread_create failed\n");
		_exit(98);
	}
	pthread_attr_destroy(&at);
	reschedule(me);
	pthread_mutex_unlock(&G);
	return 0;
}

int vf_pthread_join(pthread_t t, void **ret) {
	int me = self_checked();
	pthread_mutex_lock(&G);
	unsigned long h = (unsigned long) t;
	unsigned long base = HANDLE_BASE + (unsigned long) world_gen * MAXT;
	if (h < base || h >= base + (unsigned long) nth || h == base) {
		anomaly("pthread_join of a handle that names no thread of this process lifetime "
		        "(stale or never created): 0x%lx by t%d", h, me);
		pthread_mutex_unlock(&G);
		return ESRCH;
	}
	int id = (int) (h - base);
	if (th[id].joined) {
		anomaly("pthread_join of already joined thread t%d (handle 0x%lx) by t%d", id, h, me);
		pthread_mutex_unlock(&G);
		return EINVAL;
	}
	while (th[id].state != T_DONE) {
		th[me].state = T_JOIN;
		th[me].wjoin = id;
		if (deadlocked()) fatal("deadlock");
		reschedule(me);
	}
	th[me].state = T_RUN;
	th[id].joined = 1;
	n_joined++;
	if (ret) *ret = th[id].ret;
	pthread_t real = th[id].real;
	pthread_mutex_unlock(&G);
	pthread_join(real, NULL);
	return 0;
}

void vf_yield(void) {
	int me = self_checked();
	pthread_mutex_lock(&G);
	reschedule(me);
	pthread_mutex_unlock(&G);
}

/* ---- time ------------------------------------------------------------------ */

int vf_usleep(unsigned int us) {
	int me = self_checked();
	pthread_mutex_lock(&G);
	th[me].state = T_SLEEP;
	th[me].wake = now_us + us;
	reschedule(me);
	pthread_mutex_unlock(&G);
	return 0;
}

#define EPOCH_BASE 1700000000ULL

time_t vf_time(time_t *t) {
	time_t v = (time_t) (EPOCH_BASE + now_us / 1000000ULL);
	if (t) *t = v;
	return v;
}

int vf_clock_gettime(clockid_t c, struct timespec *ts) {
	/* the wall clock counts from the epoch, the monotonic clocks from boot (here: 3 h 25 min before the case began) - code
	 * that mixes the two must not get away with it */
	uint64_t base = (c == CLOCK_REALTIME || c == CLOCK_REALTIME_COARSE || c == CLOCK_TAI) ? EPOCH_BASE : 12300ULL;
	ts->tv_sec = (time_t) (base + now_us / 1000000ULL);
	ts->tv_nsec = (long) ((now_us % 1000000ULL) * 1000ULL);
	return 0;
}

/* ---- locks ----------------------------------------------------------------- */

static lk_t *lock_get(const void *addr, int is_rw) {
	for (int i = 0; i < nlk; i++)
		if (lk[i].addr == addr) return &lk[i];
	if (nlk >= MAXL) {
		fprintf(stderr, "VF-FATAL: lock table full\n");
		_exit(98);
	}
	lk_t *l = &lk[nlk++];
	memset(l, 0, sizeof *l);
	l->addr = addr;
	l->is_rw = is_rw;
	l->owner = -1;
	return l;
}

static void add_edge(lk_t *a, lk_t *b) {
	for (int i = 0; i < nedges; i++)
		if (edges[i].a == a && edges[i].b == b) { edges[i].count++; return; }
	if (nedges < MAXEDGE) {
		edges[nedges].a = a;
		edges[nedges].b = b;
		edges[nedges].count = 1;
		nedges++;
	}
}

static void note_acquired(int me, lk_t *l, int mode) {
	th_t *t = &th[me];
	lock_ops++;
	for (int h = 0; h < t->nheld; h++)
		if (t->held[h] != l) add_edge(t->held[h], l);
	if (t->nheld < MAXHELD) {
		t->held[t->nheld] = l;
		t->hmode[t->nheld] = (unsigned char) mode;
		t->nheld++;
	}
	if ((unsigned) t->nheld > max_nesting) max_nesting = (unsigned) t->nheld;
	if (observer) observer(me, l->addr, 1, mode);
}

static int note_released(int me, lk_t *l) {
	th_t *t = &th[me];
	for (int h = t->nheld - 1; h >= 0; h--)
		if (t->held[h] == l) {
			int mode = t->hmode[h];
			for (int k = h; k + 1 < t->nheld; k++) {
				t->held[k] = t->held[k + 1];
				t->hmode[k] = t->hmode[k + 1];
			}
			t->nheld--;
			if (observer) observer(me, l->addr, 0, mode);
			/* threads waiting for a release of this lock run at the release point */
			for (int i = 0; i < nth; i++)
				if (i != me && th[i].state == T_WAITREL && th[i].wrel == l->addr) {
					th[i].state = T_RUN;
					if (forced_next < 0) forced_next = i;
				}
			return mode;
		}
	return 0;
}

int vf_wait_release(const void *lock) {
	int me = self_checked();
	pthread_mutex_lock(&G);
	if (cancel_waits) { pthread_mutex_unlock(&G); return -1; }
	th[me].state = T_WAITREL;
	th[me].wrel = lock;
	reschedule(me);
	int r = cancel_waits ? -1 : 0;
	pthread_mutex_unlock(&G);
	return r;
}

void vf_cancel_release_waits(void) {
	self_checked();
	pthread_mutex_lock(&G);
	cancel_waits = 1;
	for (int i = 0; i < nth; i++)
		if (th[i].state == T_WAITREL) th[i].state = T_RUN;
	pthread_mutex_unlock(&G);
}

int vf_pthread_mutex_init(pthread_mutex_t *m, const pthread_mutexattr_t *a) {
	(void) a;
	self_checked();
	pthread_mutex_lock(&G);
	lk_t *l = lock_get(m, 0);
	if (l->owner != -1)
		anomaly("pthread_mutex_init of %s while held by t%d", vf_lock_name(m), l->owner);
	l->owner = -1;
	l->inited = 1;
	pthread_mutex_unlock(&G);
	return 0;
}

static void acquire(int me, lk_t *l, int mode) {
	th_t *t = &th[me];
	/* switch point before the acquisition */
	reschedule(me);
	for (;;) {
		int ok = (mode == 2) ? (l->owner == -1) : (l->owner == -1 && l->nreaders == 0);
		if (ok) break;
		t->state = T_LOCK;
		t->wlock = l;
		t->wmode = mode;
		if (deadlocked()) fatal("deadlock");
		reschedule(me);
	}
	t->state = T_RUN;
	if (mode == 2) {
		if (l->rd[me])
			info("recursive read acquisition of %s by t%d", vf_lock_name(l->addr), me);
		l->rd[me]++;
		l->nreaders++;
	} else {
		l->owner = me;
	}
	note_acquired(me, l, mode);
}

int vf_pthread_mutex_lock(pthread_mutex_t *m) {
	int me = self_checked();
	pthread_mutex_lock(&G);
	acquire(me, lock_get(m, 0), 1);
	pthread_mutex_unlock(&G);
	return 0;
}

int vf_pthread_mutex_unlock(pthread_mutex_t *m) {
	int me = self_checked();
	pthread_mutex_lock(&G);
	lk_t *l = lock_get(m, 0);
	if (l->owner != me) {
		anomaly("pthread_mutex_unlock of %s by t%d which does not hold it (owner t%d)",
		        vf_lock_name(m), me, l->owner);
		pthread_mutex_unlock(&G);
		return EPERM;
	}
	l->owner = -1;
	note_released(me, l);
	reschedule(me);
	pthread_mutex_unlock(&G);
	return 0;
}

int vf_pthread_rwlock_init(pthread_rwlock_t *r, const pthread_rwlockattr_t *a) {
	(void) a;
	self_checked();
	pthread_mutex_lock(&G);
	lk_t *l = lock_get(r, 1);
	if (l->owner != -1 || l->nreaders)
		anomaly("pthread_rwlock_init of %s while held (writer t%d, %d read acquisitions)",
		        vf_lock_name(r), l->owner, l->nreaders);
	l->owner = -1;
	l->nreaders = 0;
	memset(l->rd, 0, sizeof l->rd);
	l->inited = 1;
	/* forget stale held-set entries for this lock */
	for (int i = 0; i < nth; i++)
		while (note_released(i, l)) {}
	pthread_mutex_unlock(&G);
	return 0;
}

int vf_pthread_rwlock_rdlock(pthread_rwlock_t *r) {
	int me = self_checked();
	pthread_mutex_lock(&G);
	acquire(me, lock_get(r, 1), 2);
	pthread_mutex_unlock(&G);
	return 0;
}

int vf_pthread_rwlock_wrlock(pthread_rwlock_t *r) {
	int me = self_checked();
	pthread_mutex_lock(&G);
	acquire(me, lock_get(r, 1), 1);
	pthread_mutex_unlock(&G);
	return 0;
}

int vf_pthread_rwlock_unlock(pthread_rwlock_t *r) {
	int me = self_checked();
	pthread_mutex_lock(&G);
	lk_t *l = lock_get(r, 1);
	if (l->owner == me) {
		l->owner = -1;
	} else if (l->rd[me]) {
		l->rd[me]--;
		l->nreaders--;
	} else {
		anomaly("pthread_rwlock_unlock of %s by t%d which does not hold it", vf_lock_name(r), me);
		pthread_mutex_unlock(&G);
		return EPERM;
	}
	note_released(me, l);
	reschedule(me);
	pthread_mutex_unlock(&G);
	return 0;
}

int vf_held_count(int tid) {
	int n = 0;
	if (tid >= 0) return tid < nth ? th[tid].nheld : 0;
	for (int i = 0; i < nth; i++) n += th[i].nheld;
	return n;
}

int vf_holds(int tid, const void *lock) {
	if (tid < 0 || tid >= nth) return 0;
	for (int h = 0; h < th[tid].nheld; h++)
		if (th[tid].held[h]->addr == lock) return th[tid].hmode[h];
	return 0;
}

void vf_describe_held(char *buf, size_t n) {
	size_t o = 0;
	buf[0] = 0;
	for (int i = 0; i < nth; i++)
		for (int h = 0; h < th[i].nheld && o + 80 < n; h++)
			o += snprintf(buf + o, n - o, "t%d:%s/%s ", i, vf_lock_name(th[i].held[h]->addr),
			              th[i].hmode[h] == 1 ? "excl" : "shared");
}

size_t vf_lock_edges(vf_lock_edge *out, size_t max) {
	size_t n = 0;
	for (int i = 0; i < nedges && n < max; i++, n++) {
		snprintf(out[n].from, sizeof out[n].from, "%s", vf_lock_name(edges[i].a->addr));
		snprintf(out[n].to, sizeof out[n].to, "%s", vf_lock_name(edges[i].b->addr));
		out[n].count = edges[i].count;
	}
	return n;
}

unsigned vf_max_nesting(void) { return max_nesting; }
unsigned long vf_lock_ops(void) { return lock_ops; }
size_t vf_anomaly_count(void) { return nanom; }
const char *vf_anomaly(size_t i) { return i < nanom ? anom[i] : ""; }
size_t vf_info_count(void) { return ninfo; }
const char *vf_info(size_t i) { return i < ninfo ? infos[i] : ""; }

/* ---- log sink -------------------------------------------------------------- */

void vf_syslog(int prio, const char *fmt, ...) {
	char line[LOGW];
	va_list ap;
	va_start(ap, fmt);
	vsnprintf(line, sizeof line, fmt, ap);
	va_end(ap);
	/* the log sink is shared; threads hold the baton when they get here, but
	 * the free-running fallbacks may not: keep it simple and tolerate races */
	static FILE *lf;
	static int lf_checked;
	if (!lf_checked) {
		lf_checked = 1;
		const char *p = getenv("VF_LOGFILE");
		if (p) lf = fopen(p, "a");
	}
	if (lf) {
		fprintf(lf, "%llu.%06llu t%d <%d> %s\n", (unsigned long long) (now_us / 1000000ULL),
		        (unsigned long long) (now_us % 1000000ULL), my_id, prio & 7, line);
		fflush(lf);
	}
	unsigned long k = log_total++;
	if ((prio & 7) <= 3) {
		snprintf(errlogs[log_errors % 32], LOGW, "%llu.%06llu %s", (unsigned long long) (now_us / 1000000ULL),
		         (unsigned long long) (now_us % 1000000ULL), line);
		log_errors++;
	}
	snprintf(logs[k % LOGLINES], LOGW, "%llu.%06llu t%d <%d> %s",
	         (unsigned long long) (now_us / 1000000ULL), (unsigned long long) (now_us % 1000000ULL),
	         my_id, prio & 7, line);
}

void vf_openlog(const char *ident, int opt, int fac) { (void) ident; (void) opt; (void) fac; }
void vf_closelog(void) {}

size_t vf_log_count(void) { return log_total < LOGLINES ? (size_t) log_total : LOGLINES; }
const char *vf_log_line(size_t i) {
	size_t n = vf_log_count();
	if (i >= n) return "";
	unsigned long first = log_total - n;
	return logs[(first + i) % LOGLINES];
}
unsigned long vf_log_total(void) { return log_total; }
size_t vf_errlog_count(void) { return log_errors < 32 ? (size_t) log_errors : 32; }
const char *vf_errlog_line(size_t i) {
	size_t n = vf_errlog_count();
	if (i >= n) return "";
	return errlogs[(log_errors - n + i) % 32];
}
unsigned long vf_log_errors(void) { return log_errors; }

/* ---- virtual files ----------------------------------------------------------- */

void vf_clear_files(void) {
	for (int i = 0; i < nfiles; i++) free(files[i].content);
	nfiles = 0;
}

void vf_set_file(const char *path, const char *content, size_t len) {
	int k = -1;
	for (int i = 0; i < nfiles; i++)
		if (!strcmp(files[i].path, path)) k = i;
	if (k < 0) {
		if (nfiles >= MAXFILES) return;
		k = nfiles++;
		snprintf(files[k].path, sizeof files[k].path, "%s", path);
		files[k].content = NULL;
	}
	free(files[k].content);
	files[k].content = NULL;
	files[k].len = 0;
	if (content) {
		files[k].content = malloc(len + 1);
		memcpy(files[k].content, content, len);
		files[k].content[len] = 0;
		files[k].len = len;
	} else {
		/* removed: mark as missing */
		files[k].len = (size_t) -1;
	}
}

FILE *vf_fopen(const char *path, const char *mode) {
	for (int i = 0; i < nfiles; i++)
		if (!strcmp(files[i].path, path)) {
			if (files[i].len == (size_t) -1) { errno = ENOENT; return NULL; }
			if (files[i].len == 0) return fopen("/dev/null", "r");
			return fmemopen(files[i].content, files[i].len, "r");
		}
	if (!strncmp(path, "/vf/", 4)) { errno = ENOENT; return NULL; }
	return fopen(path, mode);
}
