/* The "world": deterministic cooperative scheduler, virtual clock, lock model,
 * thread ledger, log sink and virtual config files for running the UNMODIFIED
 * libbidib objects.  The library objects are post-processed with
 * `objcopy --redefine-syms=world/redirect.map`, which renames their imports of
 * usleep/time/clock_gettime/syslog/pthread_* / fopen to the vf_* functions below.
 *
 * Two implementations exist behind the same header:
 *   world.c       baton scheduler (one thread runs at a time, virtual time)
 *   world_free.c  free-running (real pthreads, real locks; for ThreadSanitizer)
 */
#ifndef VF_WORLD_H
#define VF_WORLD_H
#include <stdint.h>
#include <stddef.h>
#include <stdbool.h>
#include <pthread.h>
#include <stdio.h>
#include <time.h>

#ifdef __cplusplus
extern "C" {
#endif

/* ---- lifecycle ---------------------------------------------------------- */
/* Resets everything and registers the calling OS thread as world thread 0.
 * sched/sched_len: schedule choice bytes (may be NULL/0: default policy). */
void vf_world_init(const uint8_t *sched, size_t sched_len);
/* Ends the world: all world threads except 0 must be done (returns number of
 * threads that are still alive; they are abandoned). */
int vf_world_fini(void);
/* 1 in the free-running flavour (real parallel threads, for ThreadSanitizer), 0 under the baton scheduler */
int vf_free_running(void);

/* ---- time --------------------------------------------------------------- */
uint64_t vf_now_us(void);
void vf_set_time_cap(uint64_t cap_us);          /* virtual time budget, 0=none */

/* ---- threads ------------------------------------------------------------ */
typedef void *(*vf_fn)(void *);
/* application threads of the harness go through the same entry as the library */
int vf_pthread_create(pthread_t *t, const pthread_attr_t *a, vf_fn fn, void *arg);
int vf_pthread_join(pthread_t t, void **ret);
int vf_self(void);                               /* world thread id, 0 = harness */
void vf_yield(void);                             /* explicit switch point */

/* ---- lock naming / monitors --------------------------------------------- */
void vf_name_lock(const void *addr, const char *name);
const char *vf_lock_name(const void *addr);
/* number of locks currently held by world thread tid (-1: all threads) */
int vf_held_count(int tid);
/* writes a description of everything held into buf */
void vf_describe_held(char *buf, size_t n);
/* mode: 1 = exclusive (mutex or wrlock), 2 = shared; 0 = not held */
int vf_holds(int tid, const void *lock);

typedef struct {
	char from[40], to[40];
	unsigned count;
} vf_lock_edge;
/* lock-order edges accumulated since vf_world_init */
size_t vf_lock_edges(vf_lock_edge *out, size_t max);
/* max nesting depth observed, number of acquisitions */
unsigned vf_max_nesting(void);
unsigned long vf_lock_ops(void);

/* ---- anomalies ---------------------------------------------------------- */
/* Anomalies recorded by the monitors (unlock of not-held lock, join of stale
 * handle, double join, init of held lock, thread exit holding a lock,
 * recursive read lock (informational, kind 'i')).  Text lines. */
size_t vf_anomaly_count(void);
const char *vf_anomaly(size_t i);
size_t vf_info_count(void);
const char *vf_info(size_t i);

/* fatal conditions (deadlock = wait-for cycle, hang = time cap exceeded) call
 * this handler from whichever thread detects them; it must not return. */
typedef void (*vf_fatal_fn)(const char *kind, const char *detail);
void vf_set_fatal_handler(vf_fatal_fn fn);

/* thread ledger */
unsigned vf_threads_created(void);
unsigned vf_threads_joined(void);
unsigned vf_threads_unjoined_done(void);          /* finished but never joined */
unsigned vf_threads_alive(void);                  /* not finished (excluding thread 0) */

/* statistics of the schedule actually executed */
unsigned long vf_decision_points(void);
unsigned vf_preemptions_taken(void);

/* ---- log sink ----------------------------------------------------------- */
size_t vf_log_count(void);
const char *vf_log_line(size_t i);                /* i counted from the oldest retained */
unsigned long vf_log_total(void);
size_t vf_errlog_count(void);                     /* last (<=32) lines with priority <= LOG_ERR */
const char *vf_errlog_line(size_t i);
unsigned long vf_log_errors(void);                /* lines with priority <= LOG_ERR */

/* ---- virtual files ------------------------------------------------------ */
/* Registers content for a path; fopen(path,"r") from the library returns an
 * fmemopen stream. content==NULL removes the file. All other paths -> real fopen. */
void vf_set_file(const char *path, const char *content, size_t len);
void vf_clear_files(void);

/* ---- the redirected imports (called by libbidib objects) --------------- */
int vf_usleep(unsigned int us);
/* Blocks the caller until ANOTHER thread releases `lock` (mutex or rwlock); the caller then runs first, i.e. at the
 * release point, before the releasing thread goes on: a reader scheduled exactly where a half-finished update would be
 * visible. Returns 0, or -1 after vf_cancel_release_waits() (and always in the free-running world). */
int vf_wait_release(const void *lock);
void vf_cancel_release_waits(void);
time_t vf_time(time_t *t);
int vf_clock_gettime(clockid_t c, struct timespec *ts);
void vf_syslog(int prio, const char *fmt, ...);
void vf_openlog(const char *ident, int opt, int fac);
void vf_closelog(void);
int vf_pthread_mutex_init(pthread_mutex_t *m, const pthread_mutexattr_t *a);
int vf_pthread_mutex_lock(pthread_mutex_t *m);
int vf_pthread_mutex_unlock(pthread_mutex_t *m);
int vf_pthread_rwlock_init(pthread_rwlock_t *l, const pthread_rwlockattr_t *a);
int vf_pthread_rwlock_rdlock(pthread_rwlock_t *l);
int vf_pthread_rwlock_wrlock(pthread_rwlock_t *l);
int vf_pthread_rwlock_unlock(pthread_rwlock_t *l);
FILE *vf_fopen(const char *path, const char *mode);

/* optional observer: called (under the baton) for every lock acquire (op=1),
 * release (op=0) with the lock address; used by the lock-contract monitor. */
typedef void (*vf_lock_observer)(int tid, const void *lock, int op, int mode);
void vf_set_lock_observer(vf_lock_observer o);

#ifdef __cplusplus
}
#endif
#endif
