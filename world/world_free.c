/* Free-running implementation of world.h for ThreadSanitizer: the redirected imports forward to the REAL
 * pthread functions, so that the library's threads really run in parallel and TSan sees the library's own
 * synchronisation and nothing else. No baton, no global bookkeeping lock (either would add happens-before
 * edges that hide races): per-thread bookkeeping lives in thread-local storage / relaxed atomics.
 *   - virtual time = monotonic real time x VF_SCALE (sleeps are divided by VF_SCALE)
 *   - at every lock operation a generated delay may be injected (schedule bytes), to perturb interleavings
 *   - held-sets are kept per thread (for the lock-contract monitor and the balance check of the own thread)
 *   - no wait-for-cycle detection, no lock-order graph, no log retention in this flavour
 */
#define _GNU_SOURCE
#include "world.h"
#include <stdlib.h>
#include <string.h>
#include <stdarg.h>
#include <stdatomic.h>
#include <unistd.h>
#include <errno.h>
#include <sched.h>

#define VF_SCALE 12
#define MAXT 64
#define MAXHELD 24
#define MAXL 64
#define MAXFILES 8
#define MAXANOM 16

static struct timespec t0;
static const uint8_t *sched;
static size_t sched_len;
static atomic_ulong sched_pos;
static vf_fatal_fn fatal_fn;
static vf_lock_observer observer;

static __thread int my_id = -1;
static __thread const void *held[MAXHELD];
static __thread int hmode[MAXHELD];
static __thread int nheld;
static atomic_int held_total;               /* relaxed: number of library locks held by all threads */
static atomic_uint n_created, n_joined, n_done;
static atomic_ulong lock_ops;
static atomic_uint max_nesting;

static struct { const void *addr; char name[40]; } names[MAXL];
static int nnames;                          /* written only before threads exist */

static char anom[MAXANOM][200];
static atomic_uint nanom;

static struct { pthread_t handle; vf_fn fn; void *arg; int id; atomic_int joined; } th[MAXT];

static struct { char path[128]; char *content; size_t len; } files[MAXFILES];
static int nfiles;

static void anomaly(const char *fmt, ...) {
	unsigned k = atomic_fetch_add_explicit(&nanom, 1, memory_order_relaxed);
	if (k >= MAXANOM) return;
	va_list ap;
	va_start(ap, fmt);
	vsnprintf(anom[k], sizeof anom[0], fmt, ap);
	va_end(ap);
}

void vf_world_init(const uint8_t *s, size_t slen) {
	clock_gettime(CLOCK_MONOTONIC, &t0);
	sched = s;
	sched_len = slen;
	atomic_store(&sched_pos, 0);
	my_id = 0;
	nheld = 0;
	atomic_store(&held_total, 0);
	atomic_store(&n_created, 0);
	atomic_store(&n_joined, 0);
	atomic_store(&n_done, 0);
	atomic_store(&nanom, 0);
	nnames = 0;
}
int vf_free_running(void) { return 1; }
int vf_world_fini(void) { return (int) (atomic_load(&n_created) - atomic_load(&n_done)); }

uint64_t vf_now_us(void) {
	struct timespec t;
	clock_gettime(CLOCK_MONOTONIC, &t);
	int64_t ns = (int64_t) (t.tv_sec - t0.tv_sec) * 1000000000LL + (t.tv_nsec - t0.tv_nsec);
	return (uint64_t) (ns / 1000) * VF_SCALE;
}
void vf_set_time_cap(uint64_t c) { (void) c; }
void vf_set_fatal_handler(vf_fatal_fn f) { fatal_fn = f; }
void vf_set_lock_observer(vf_lock_observer o) { observer = o; }
int vf_self(void) { return my_id; }
unsigned long vf_decision_points(void) { return atomic_load_explicit(&sched_pos, memory_order_relaxed); }
unsigned vf_preemptions_taken(void) { return (unsigned) atomic_load_explicit(&sched_pos, memory_order_relaxed); }
unsigned vf_threads_created(void) { return atomic_load(&n_created); }
unsigned vf_threads_joined(void) { return atomic_load(&n_joined); }
unsigned vf_threads_unjoined_done(void) { return 0; }
unsigned vf_threads_alive(void) { return atomic_load(&n_created) - atomic_load(&n_done); }

static void *trampoline(void *p) {
	int id = (int) (intptr_t) p;
	my_id = id;
	nheld = 0;
	void *r = th[id].fn(th[id].arg);
	if (nheld > 0) anomaly("thread t%d exits holding %d lock(s)", id, nheld);
	atomic_fetch_add(&n_done, 1);
	return r;
}

int vf_pthread_create(pthread_t *t, const pthread_attr_t *a, vf_fn fn, void *arg) {
	unsigned k = atomic_fetch_add(&n_created, 1) + 1;
	if (k >= MAXT) { anomaly("too many threads"); return EAGAIN; }
	th[k].fn = fn;
	th[k].arg = arg;
	th[k].id = (int) k;
	atomic_store(&th[k].joined, 0);
	int r = pthread_create(&th[k].handle, a, trampoline, (void *) (intptr_t) k);
	*t = th[k].handle;
	return r;
}

int vf_pthread_join(pthread_t t, void **ret) {
	unsigned n = atomic_load(&n_created);
	/* pthread_t values are reused once a thread has been joined: the newest thread with this handle that is not
	 * joined yet is meant; only if every thread that ever had the handle is joined already, it is a double join */
	int seen = 0;
	for (unsigned k = n < MAXT ? n : MAXT - 1; k >= 1; k--)
		if (pthread_equal(th[k].handle, t)) {
			seen = (int) k;
			if (atomic_load(&th[k].joined)) continue;
			atomic_store(&th[k].joined, 1);
			atomic_fetch_add(&n_joined, 1);
			return pthread_join(t, ret);
		}
	if (seen) { anomaly("pthread_join of already joined thread t%d", seen); return EINVAL; }
	anomaly("pthread_join of a handle that was not created in this session");
	return ESRCH;
}

void vf_yield(void) { sched_yield(); }

int vf_wait_release(const void *lock) { (void) lock; return -1; }
void vf_cancel_release_waits(void) {}

int vf_usleep(unsigned int us) {
	unsigned real = us / VF_SCALE;
	if (real == 0) real = 1;
	usleep(real);
	return 0;
}
time_t vf_time(time_t *t) {
	time_t v = (time_t) (1700000000ULL + vf_now_us() / 1000000ULL);
	if (t) *t = v;
	return v;
}
int vf_clock_gettime(clockid_t c, struct timespec *ts) {
	uint64_t n = vf_now_us();
	uint64_t base = (c == CLOCK_REALTIME || c == CLOCK_REALTIME_COARSE || c == CLOCK_TAI) ? 1700000000ULL : 12300ULL;
	ts->tv_sec = (time_t) (base + n / 1000000ULL);
	ts->tv_nsec = (long) (n % 1000000ULL) * 1000;
	return 0;
}

/* generated perturbation at lock points */
static void perturb(void) {
	if (!sched_len) return;
	unsigned long i = atomic_fetch_add_explicit(&sched_pos, 1, memory_order_relaxed);
	uint8_t b = sched[i % sched_len];
	if (b < 20) sched_yield();
	else if (b < 28) usleep((unsigned) (b - 19) * 20);
}

static void note_acquired(const void *l, int mode) {
	if (nheld < MAXHELD) { held[nheld] = l; hmode[nheld] = mode; }
	nheld++;
	atomic_fetch_add_explicit(&held_total, 1, memory_order_relaxed);
	atomic_fetch_add_explicit(&lock_ops, 1, memory_order_relaxed);
	unsigned mx = atomic_load_explicit(&max_nesting, memory_order_relaxed);
	if ((unsigned) nheld > mx) atomic_store_explicit(&max_nesting, (unsigned) nheld, memory_order_relaxed);
	if (observer) observer(my_id, l, 1, mode);
}
static void note_released(const void *l) {
	for (int i = (nheld < MAXHELD ? nheld : MAXHELD) - 1; i >= 0; i--)
		if (held[i] == l) {
			for (int j = i; j + 1 < nheld && j + 1 < MAXHELD; j++) { held[j] = held[j + 1]; hmode[j] = hmode[j + 1]; }
			nheld--;
			atomic_fetch_sub_explicit(&held_total, 1, memory_order_relaxed);
			if (observer) observer(my_id, l, 0, 0);
			return;
		}
	anomaly("unlock of %s which t%d does not hold", vf_lock_name(l), my_id);
}

int vf_pthread_mutex_init(pthread_mutex_t *m, const pthread_mutexattr_t *a) { return pthread_mutex_init(m, a); }
int vf_pthread_mutex_lock(pthread_mutex_t *m) {
	perturb();
	int r = pthread_mutex_lock(m);
	note_acquired(m, 1);
	return r;
}
int vf_pthread_mutex_unlock(pthread_mutex_t *m) {
	note_released(m);
	int r = pthread_mutex_unlock(m);
	perturb();
	return r;
}
int vf_pthread_rwlock_init(pthread_rwlock_t *l, const pthread_rwlockattr_t *a) { return pthread_rwlock_init(l, a); }
int vf_pthread_rwlock_rdlock(pthread_rwlock_t *l) {
	perturb();
	int r = pthread_rwlock_rdlock(l);
	note_acquired(l, 2);
	return r;
}
int vf_pthread_rwlock_wrlock(pthread_rwlock_t *l) {
	perturb();
	int r = pthread_rwlock_wrlock(l);
	note_acquired(l, 1);
	return r;
}
int vf_pthread_rwlock_unlock(pthread_rwlock_t *l) {
	note_released(l);
	int r = pthread_rwlock_unlock(l);
	perturb();
	return r;
}

const char *vf_lock_name(const void *addr) {
	static __thread char buf[32];
	for (int i = 0; i < nnames; i++)
		if (names[i].addr == addr) return names[i].name;
	snprintf(buf, sizeof buf, "unnamed_lock");
	return buf;
}
void vf_name_lock(const void *addr, const char *name) {
	if (nnames < MAXL) {
		names[nnames].addr = addr;
		snprintf(names[nnames].name, sizeof names[0].name, "%s", name);
		nnames++;
	}
}
/* own thread (any tid != -1 is answered for the calling thread), -1: all threads */
int vf_held_count(int tid) { return tid == -1 ? atomic_load_explicit(&held_total, memory_order_relaxed) : nheld; }
int vf_holds(int tid, const void *lock) {
	(void) tid;
	int best = 0;
	for (int i = 0; i < nheld && i < MAXHELD; i++)
		if (held[i] == lock && (best == 0 || hmode[i] < best)) best = hmode[i];
	return best;
}
void vf_describe_held(char *buf, size_t n) {
	size_t o = 0;
	buf[0] = 0;
	for (int i = 0; i < nheld && i < MAXHELD && o + 60 < n; i++)
		o += (size_t) snprintf(buf + o, n - o, "t%d:%s/%s ", my_id, vf_lock_name(held[i]), hmode[i] == 1 ? "excl" : "shared");
	if (!nheld) snprintf(buf, n, "(%d lock(s) held by other threads)", atomic_load_explicit(&held_total, memory_order_relaxed));
}
size_t vf_lock_edges(vf_lock_edge *out, size_t max) { (void) out; (void) max; return 0; }
unsigned vf_max_nesting(void) { return atomic_load_explicit(&max_nesting, memory_order_relaxed); }
unsigned long vf_lock_ops(void) { return atomic_load_explicit(&lock_ops, memory_order_relaxed); }
size_t vf_anomaly_count(void) { unsigned k = atomic_load_explicit(&nanom, memory_order_relaxed); return k > MAXANOM ? MAXANOM : k; }
const char *vf_anomaly(size_t i) { return i < vf_anomaly_count() ? anom[i] : ""; }
size_t vf_info_count(void) { return 0; }
const char *vf_info(size_t i) { (void) i; return ""; }

/* the message is formatted (so that bad arguments stay visible to the sanitizer) and dropped */
void vf_syslog(int prio, const char *fmt, ...) {
	(void) prio;
	char buf[1200];
	va_list ap;
	va_start(ap, fmt);
	vsnprintf(buf, sizeof buf, fmt, ap);
	va_end(ap);
}
void vf_openlog(const char *ident, int opt, int fac) { (void) ident; (void) opt; (void) fac; }
void vf_closelog(void) {}
size_t vf_log_count(void) { return 0; }
const char *vf_log_line(size_t i) { (void) i; return ""; }
unsigned long vf_log_total(void) { return 0; }
size_t vf_errlog_count(void) { return 0; }
const char *vf_errlog_line(size_t i) { (void) i; return ""; }
unsigned long vf_log_errors(void) { return 0; }

void vf_clear_files(void) {
	for (int i = 0; i < nfiles; i++) free(files[i].content);
	nfiles = 0;
}
void vf_set_file(const char *path, const char *content, size_t len) {
	int k = -1;
	for (int i = 0; i < nfiles; i++)
		if (!strcmp(files[i].path, path)) k = i;
	if (k < 0) {
		if (nfiles >= MAXFILES) return;
		k = nfiles++;
		snprintf(files[k].path, sizeof files[k].path, "%s", path);
		files[k].content = NULL;
	}
	free(files[k].content);
	files[k].content = NULL;
	files[k].len = 0;
	if (content) {
		files[k].content = malloc(len + 1);
		memcpy(files[k].content, content, len);
		files[k].content[len] = 0;
		files[k].len = len;
	} else files[k].len = (size_t) -1;
}
FILE *vf_fopen(const char *path, const char *mode) {
	for (int i = 0; i < nfiles; i++)
		if (!strcmp(files[i].path, path)) {
			if (files[i].len == (size_t) -1) { errno = ENOENT; return NULL; }
			if (files[i].len == 0) return fopen("/dev/null", "r");
			return fmemopen(files[i].content, files[i].len, "r");
		}
	if (!strncmp(path, "/vf/", 4)) { errno = ENOENT; return NULL; }
	return fopen(path, mode);
}
